import os, sys
os.environ["INFOCF_LOGLEVEL"]="ERROR"
sys.path.insert(0,"/repo")
from typing import List, Set, Dict
from inference.optimizer import remove_supersets
from inference.preocf import ranks2tpo, tpo2ranks

def check_remove_supersets(l: List[Set[int]]) -> List[List[int]]:
    """
    pre: len(l) <= 3 and all(len(s) <= 3 for s in l)
    post: all(any(set(r) <= s for r in _) for s in l) and all(set(r) in l for r in _) and all(not (set(a) < set(b)) for a in _ for b in _)
    """
    return remove_supersets(l)

def check_tpo_roundtrip(ranks: Dict[str,int]) -> Dict[str,int]:
    """
    pre: len(ranks) <= 3 and all(v >= 0 for v in ranks.values())
    post: _ == ranks
    """
    tpo = ranks2tpo(ranks)
    rs = sorted(set(ranks.values()))
    return tpo2ranks(tpo, lambda i: rs[i])

def tt_and(a: int, b: int) -> int:
    """
    pre: 0 <= a < 256 and 0 <= b < 256
    post: _ <= a
    """
    return a & b
def tt_bug(a: int, b: int) -> bool:
    """
    pre: 0 <= a < 256 and 0 <= b < 256
    post: _
    """
    return ((a & b) | (a & ~b & 255)) == a and (a | b) != 77
