import os, sys
os.environ["INFOCF_LOGLEVEL"]="ERROR"
sys.path.insert(0,"/repo")
import infocf
from typing import List, Set, Dict, Tuple
from inference.optimizer import remove_supersets

def check_rs(a: int, b: int, c: int) -> List[List[int]]:
    """
    pre: 0 <= a < 8 and 0 <= b < 8 and 0 <= c < 8
    post: all(not (set(x) < set(y)) for x in _ for y in _)
    """
    def dec(m): return {i for i in (1,2,3) if (m >> (i-1)) % 2 == 1}
    l=[dec(a),dec(b),dec(c)]
    return remove_supersets(l)
