import os, sys
os.environ["INFOCF_LOGLEVEL"]="ERROR"
sys.path.insert(0,"/repo")
import infocf
from parser.Wrappers import parse_formula

def count_ids(f) -> int:
    return len(f.get_atoms())

def check_pf(s: str) -> bool:
    """
    pre: len(s) <= 3 and all(c in "ab !,;()" for c in s)
    post: _
    """
    try:
        f = parse_formula(s)
    except Exception:
        return True
    # accepted: every letter in s must occur as an atom of the result
    names = {str(a) for a in f.get_atoms()}
    return all((c in names) for c in s if c in "ab")
