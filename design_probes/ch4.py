import os, sys
os.environ["INFOCF_LOGLEVEL"]="ERROR"
sys.path.insert(0,"/repo")
import infocf
from parser.Wrappers import parse_formula
from parser.CKBLexer import CKBLexer
from parser.CKBParser import CKBParser
from antlr4.dfa.DFA import DFA
from antlr4.PredictionContext import PredictionContextCache
def reset():
    CKBLexer.decisionsToDFA = [ DFA(ds, i) for i, ds in enumerate(CKBLexer.atn.decisionToState) ]
    CKBParser.decisionsToDFA = [ DFA(ds, i) for i, ds in enumerate(CKBParser.atn.decisionToState) ]
    CKBParser.sharedContextCache = PredictionContextCache()

def check_pf(s: str) -> bool:
    """
    pre: len(s) <= 3 and all(c in "ab !,;()" for c in s)
    post: _
    """
    reset()
    try:
        f = parse_formula(s)
    except Exception:
        return True
    names = {str(a) for a in f.get_atoms()}
    return all((c in names) for c in s if c in "ab")
