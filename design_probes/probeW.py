import os, sys, time, itertools
os.environ["INFOCF_LOGLEVEL"]="ERROR"
sys.path.insert(0,"/repo")
import infocf
import z3, symex, stubs
from symex import Engine, SymBool
from stubs import F
OPNAME=sys.argv[1]; N=int(sys.argv[2]); M=int(sys.argv[3]); PM=sys.argv[4] if len(sys.argv)>4 else 'rc2'
stubs.setN(N); W=stubs.W; FULL=stubs.FULL
import inference.consistency_sat as cs, inference.conditional as cm, inference.inference as inf, inference.system_z as sz
import inference.system_w as sw, inference.tseitin_transformation as tt, inference.optimizer as om, inference.p_entailment as pe, inference.lex_inf as lx
from inference.inference_manager import create_epistemic_state, create_inference_instance
from inference.conditional import Conditional
from inference.belief_base import BeliefBase
for m in (cs,inf,sz,pe,tt,lx):
    for nm in ("Solver","Implies","And","Not","Or","is_sat","is_unsat"):
        if hasattr(m,nm): setattr(m,nm,getattr(stubs,nm))
for nm in ("And","Not","Or"): setattr(cm,nm,getattr(stubs,nm))
tt.z3=stubs.FakeZ3
om.RC2=stubs.RC2

A=[z3.BitVec(f"A{i}",W) for i in range(M)]; B=[z3.BitVec(f"B{i}",W) for i in range(M)]
QA=z3.BitVec("QA",W); QB=z3.BitVec("QB",W)
def spec_layers():
    ver=[A[i]&B[i] for i in range(M)]; mat=[~A[i]|B[i] for i in range(M)]
    placed=[z3.BoolVal(False)]*M; layer=[z3.IntVal(-1)]*M
    for L in range(M):
        know=FULL
        for j in range(M): know=know & z3.If(placed[j],FULL,mat[j])
        tol=[z3.And(z3.Not(placed[i]), (know&ver[i])!=0) for i in range(M)]
        layer=[z3.If(tol[i],z3.IntVal(L),layer[i]) for i in range(M)]
        placed=[z3.Or(placed[i],tol[i]) for i in range(M)]
    return layer, z3.And(*placed)
layer,consistent=spec_layers()
def bit(bv,w): return z3.Extract(w,w,bv)==1
fals=[[bit(A[i]&~B[i],w) for w in range(W)] for i in range(M)]
def spec_z():
    INF=M+5
    rank=[]
    for w in range(W):
        r=z3.IntVal(0)
        for i in range(M): r=z3.If(z3.And(fals[i][w], layer[i]+1>r), layer[i]+1, r)
        rank.append(r)
    def frank(bv):
        r=z3.IntVal(INF)
        for w in range(W): r=z3.If(z3.And(bit(bv,w), rank[w]<r), rank[w], r)
        return r
    return z3.Or((QA&~QB)==0, frank(QA&QB)<frank(QA&~QB))
def spec_w():
    def less(w,v):  # w <_w v
        alts=[]
        for L in range(M):
            eq_above=z3.And([z3.Implies(layer[i]>L, fals[i][w]==fals[i][v]) for i in range(M)]+[True])
            sub=z3.And([z3.Implies(layer[i]==L, z3.Implies(fals[i][w],fals[i][v])) for i in range(M)]+[True])
            strict=z3.Or([z3.And(layer[i]==L, z3.Not(fals[i][w]), fals[i][v]) for i in range(M)]+[False])
            alts.append(z3.And(eq_above,sub,strict))
        return z3.Or(alts)
    return z3.And([z3.Implies(bit(QA&~QB,v), z3.Or([z3.And(bit(QA&QB,w),less(w,v)) for w in range(W)])) for v in range(W)])
def spec_p():
    # (B|A) p-entailed iff D u {(!B|A)} has no tolerance partition
    A2=A+[QA]; B2=B+[~QB]; M2=M+1
    ver=[A2[i]&B2[i] for i in range(M2)]; mat=[~A2[i]|B2[i] for i in range(M2)]
    placed=[z3.BoolVal(False)]*M2
    for L in range(M2):
        know=FULL
        for j in range(M2): know=know & z3.If(placed[j],FULL,mat[j])
        tol=[z3.And(z3.Not(placed[i]), (know&ver[i])!=0) for i in range(M2)]
        placed=[z3.Or(placed[i],tol[i]) for i in range(M2)]
    return z3.Not(z3.And(*placed))
def spec_lex():
    INFV=None
    def vec(w): return [z3.Sum([z3.If(z3.And(layer[i]==L,fals[i][w]),1,0) for i in range(M)]) for L in range(M-1,-1,-1)]
    def lexlt(a,b):
        r=z3.BoolVal(False)
        for x,y in reversed(list(zip(a,b))): r=z3.Or(x<y, z3.And(x==y,r))
        return r
    vecs=[vec(w) for w in range(W)]
    # exists w in AB st for all v in A!B: vec(w) < vec(v)  (min over AB < min over A!B)
    return z3.Or((QA&~QB)==0, z3.Or([z3.And(bit(QA&QB,w), z3.And([z3.Implies(bit(QA&~QB,v), lexlt(vecs[w],vecs[v])) for v in range(W)])) for w in range(W)]))
SPEC={'system-z':spec_z,'system-w':spec_w,'p-entailment':spec_p,'lex_inf':spec_lex}[OPNAME]()
def run(eng):
    stubs._cnt[0]=0
    conds={i+1:Conditional(F(B[i]),F(A[i]),f"c{i+1}") for i in range(M)}
    bb=BeliefBase([],conds,"sym")
    es=create_epistemic_state(bb,OPNAME,"z3",PM if OPNAME in('system-w','lex_inf') else '',False)
    op=create_inference_instance(es)
    from pysat.card import IDPool
    es["pool"]=IDPool(); stubs.POOL[0]=es["pool"]
    try:
        op.preprocess_belief_base(0)
    except AssertionError as e:
        return ("refused",str(e))
    q=Conditional(F(QB),F(QA),"q")
    return ("ans",op.general_inference(q))
stats={"viol":0,"refused":0,"ans":0,"models":[]}
def check(eng,res):
    s=eng.s
    if res[0]=="refused":
        stats["refused"]+=1; neg=consistent if M>0 else z3.BoolVal(False)
    else:
        stats["ans"]+=1; neg=z3.Or(z3.Not(consistent), SPEC!=z3.BoolVal(res[1]))
    s.push(); s.add(neg); r=s.check()
    if r!=z3.unsat:
        stats["viol"]+=1
        if len(stats["models"])<3:
            m=s.model(); stats["models"].append((res,{str(d):m[d] for d in m.decls() if str(d)[0] in "ABQ"}))
    s.pop()
eng=Engine(); eng.assumptions=[]; symex.ENG=eng
t=time.time(); n=eng.run_all(run,check)
print(OPNAME,PM,"N",N,"M",M,"paths",n,"checks",eng.checks,stats["refused"],stats["ans"],"viol",stats["viol"],"time %.1fs"%(time.time()-t))
for m in stats["models"]: print("  CEX",m)
