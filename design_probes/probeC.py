import os, sys, time
os.environ["INFOCF_LOGLEVEL"]="ERROR"
sys.path.insert(0,"/repo")
import infocf
import z3, symex2 as symex, stubs
from symex2 import Engine, SymBool
from stubs import F
N=int(sys.argv[1]); M=int(sys.argv[2])
stubs.setN(N); W=stubs.W; FULL=stubs.FULL
import inference.consistency_sat as cs, inference.conditional as cm, inference.inference as inf
import inference.tseitin_transformation as tt, inference.optimizer as om, inference.c_inference as ci
from inference.inference_manager import create_epistemic_state, create_inference_instance
from inference.conditional import Conditional
from inference.belief_base import BeliefBase
# arithmetic stubs
class Ar:
    def __init__(s,e): s.e=e
    def __sub__(s,o): return Ar(s.e-o.e)
INT="INT"
def Symbol(name,typ=None): return Ar(z3.Int(name))
def Int(v): return Ar(z3.IntVal(v))
def Plus(*a):
    a=stubs._flat(a); return Ar(z3.Sum([x.e for x in a]))
class Cn:
    def __init__(s,e): s.e=e
def GE(a,b): return Cn(a.e>=b.e)
def GT(a,b): return Cn(a.e>b.e)
def LE(a,b): return Cn(a.e<=b.e)
def LT(a,b): return Cn(a.e<b.e)
def And(*a):
    a=stubs._flat(a)
    if all(isinstance(x,Cn) for x in a): return Cn(z3.And([x.e for x in a]+[z3.BoolVal(True)]))
    return stubs.And(*a)
def Not(a):
    if isinstance(a,Cn): return Cn(z3.Not(a.e))
    return stubs.Not(a)
class Solver(stubs.Solver):
    def __init__(s,name=None): super().__init__(name); s.ar=[]
    def add_assertion(s,f):
        if isinstance(f,Cn): s.ar.append(f.e)
        else: super().add_assertion(f)
    def solve(s):
        if s.ar:
            zs=z3.Solver(); zs.add(*s.ar); r=zs.check(); assert r!=z3.unknown
            s.last_model=zs.model() if r==z3.sat else None
            LASTMODEL[0]=s.last_model
            return r==z3.sat
        return super().solve()
LASTMODEL=[None]
for m in (cs,inf,tt):
    for nm in ("Solver","Implies","And","Not","Or","is_sat","is_unsat"):
        if hasattr(m,nm): setattr(m,nm,getattr(stubs,nm))
for nm in ("And","Not","Or"): setattr(cm,nm,getattr(stubs,nm))
tt.z3=stubs.FakeZ3; om.RC2=stubs.RC2
ci.Symbol=Symbol; ci.Int=Int; ci.Plus=Plus; ci.GE=GE; ci.GT=GT; ci.LE=LE; ci.LT=LT; ci.And=And; ci.Not=Not; ci.Solver=Solver; ci.is_sat=stubs.is_sat; ci.INT=INT
A=[z3.BitVec(f"A{i}",W) for i in range(M)]; B=[z3.BitVec(f"B{i}",W) for i in range(M)]
QA=z3.BitVec("QA",W); QB=z3.BitVec("QB",W)
def bit(bv,w): return z3.Extract(w,w,bv)==1
ver=[A[i]&B[i] for i in range(M)]; mat=[~A[i]|B[i] for i in range(M)]
placed=[z3.BoolVal(False)]*M
for L in range(M):
    know=FULL
    for j in range(M): know=know & z3.If(placed[j],FULL,mat[j])
    tol=[z3.And(z3.Not(placed[i]), (know&ver[i])!=0) for i in range(M)]
    placed=[z3.Or(placed[i],tol[i]) for i in range(M)]
consistent=z3.And(*placed)
fals=[[bit(A[i]&~B[i],w) for w in range(W)] for i in range(M)]
BIG=1000
def kappa(eta,w): return z3.Sum([z3.If(fals[i][w],eta[i],0) for i in range(M)])
def frank(eta,bv):
    r=z3.IntVal(BIG)
    for w in range(W):
        k=kappa(eta,w); r=z3.If(z3.And(bit(bv,w),k<r),k,r)
    return r
def accepts(eta,a,b): return z3.And((a&b)!=0, z3.Or((a&~b)==0, frank(eta,a&b)<frank(eta,a&~b)))   # k(AB)<k(A!B), inf if none
def crep(eta): return z3.And([e>=0 for e in eta]+[e<BIG//(M+1) for e in eta]+[accepts(eta,A[i],B[i]) for i in range(M)])
def qacc(eta): return z3.Or((QA&~QB)==0, z3.And((QA&QB)!=0, frank(eta,QA&QB)<frank(eta,QA&~QB)))
def run(eng):
    stubs._cnt[0]=0
    conds={i+1:Conditional(F(B[i]),F(A[i]),f"c{i+1}") for i in range(M)}
    bb=BeliefBase([],conds,"sym")
    es=create_epistemic_state(bb,"c-inference","z3","rc2",False)
    op=create_inference_instance(es)
    from pysat.card import IDPool
    es["pool"]=IDPool(); stubs.POOL[0]=es["pool"]
    try: op.preprocess_belief_base(0)
    except AssertionError as e: return ("refused",str(e))
    q=Conditional(F(QB),F(QA),"q")
    LASTMODEL[0]=None
    try: return ("ans",op.general_inference(q),LASTMODEL[0])
    except Exception as e: return ("exc",repr(e))
stats={"viol":0,"refused":0,"ans":0,"exc":0,"models":[]}
def check(eng,res):
    s=eng.s; stats[res[0]]+=1
    if res[0]=="refused": neg=consistent
    elif res[0]=="exc": neg=z3.BoolVal(True)
    elif res[1] is True:
        eta=[z3.Int(f"xeta{i}") for i in range(M)]
        neg=z3.Or(z3.Not(consistent), z3.And(crep(eta), z3.Not(qacc(eta))))
    else:
        # answered False: must exhibit witness; use code's model if present else search one
        eta=[z3.Int(f"xeta{i}") for i in range(M)]
        # spec False  <=> exists eta crep & !qacc. violation iff no such eta for some base on path: needs forall; approximate via witness
        mdl=res[2]
        if mdl is not None:
            wit=[mdl.eval(z3.Int(f"eta_{i+1}"),model_completion=True) for i in range(M)]
            neg=z3.Or(z3.Not(consistent), z3.Not(z3.And(crep(wit), z3.Not(qacc(wit)))))
        else:
            neg=z3.BoolVal(False); stats.setdefault("nowit",0); stats["nowit"]+=1
    s.push(); s.add(neg); r=s.check()
    if r!=z3.unsat:
        stats["viol"]+=1
        if len(stats["models"])<3:
            m=s.model(); stats["models"].append((res[:2],{str(d):m[d] for d in m.decls() if str(d)[0] in "ABQ"}))
    s.pop()
eng=Engine(); symex.ENG=eng
t=time.time(); eng.run_all(run,check)
print("c-inference N",N,"M",M,"paths",eng.paths,"checks",eng.checks,{k:v for k,v in stats.items() if k!='models'},"time %.1fs solver %.1fs"%(time.time()-t,eng.solver_time))
for m in stats["models"]: print("  CEX",m)
