"""probe v2: decision-replay symbolic executor, incremental frames, model-guided feasibility, prefix-parallel"""
import z3, time, os
class Abort(BaseException): pass
class Engine:
    def __init__(self, assumptions=()):
        self.s = z3.Solver()
        for a in assumptions: self.s.add(a)
        self.frames = []     # per decision: [cond, val, exhausted]
        self.pos = 0         # index of next decision during a run
        self.checks = 0; self.paths = 0; self.solver_time = 0.0
        self.model = None    # a model of current PC (or None)
        self.base = 0        # decisions below this index are fixed (prefix for parallel split)
    def _check(self, *extra):
        t=time.time(); self.checks += 1
        r = self.s.check(*extra)
        self.solver_time += time.time()-t
        return r
    def add(self, expr):
        """stub-originated assumption (part of environment contract); only added when not replaying"""
        if self.pos >= len(self.frames):
            self.s.add(expr); self.model = None
    def decide(self, cond):
        i = self.pos
        if i < len(self.frames):
            self.pos += 1
            return self.frames[i][1]
        # new decision
        mval = None
        if self.model is not None:
            v = self.model.eval(cond, model_completion=True)
            mval = z3.is_true(v)
        if mval is None:
            r = self._check()
            if r != z3.sat: raise Abort()
            self.model = self.s.model()
            mval = z3.is_true(self.model.eval(cond, model_completion=True))
        # mval side is feasible; test the other side
        other = z3.Not(cond) if mval else cond
        r = self._check(other)
        both = (r == z3.sat)
        if r == z3.unknown: raise RuntimeError("solver unknown")
        if both:
            val = True; exhausted = False
            self.s.push(); self.s.add(cond)
            if not mval: self.model = self.s.model() if False else None
        else:
            val = mval; exhausted = True
            self.s.push(); self.s.add(cond if val else z3.Not(cond))
        if both and not mval: self.model=None
        self.frames.append([cond, val, exhausted]); self.pos += 1
        return val
    def run_all(self, fn, check, prefix=None, max_paths=None):
        if prefix:
            for (val) in prefix: pass
        while True:
            self.pos = 0
            res = fn(self)
            self.paths += 1
            check(self, res)
            # backtrack
            while len(self.frames) > self.base and (self.frames[-1][2] or self.frames[-1][1] is False):
                self.frames.pop(); self.s.pop()
            if len(self.frames) <= self.base: break
            fr = self.frames[-1]
            self.s.pop(); self.s.push(); self.s.add(z3.Not(fr[0]))
            fr[1] = False; fr[2] = True; self.model = None
            if max_paths and self.paths >= max_paths: return False
        return True
ENG = None
class SymBool:
    __slots__=("e",)
    def __init__(self, e): self.e = e
    def __bool__(self):
        e = self.e
        if z3.is_true(e): return True
        if z3.is_false(e): return False
        return ENG.decide(e)
