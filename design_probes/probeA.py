import os, sys, time, itertools
os.environ["INFOCF_LOGLEVEL"]="ERROR"
sys.path.insert(0,"/repo")
import z3, symex
from symex import Engine, SymBool
import inference.consistency_sat as cs
import inference.conditional as cond_mod
from inference.conditional import Conditional
from inference.belief_base import BeliefBase

N=int(sys.argv[1]); M=int(sys.argv[2]); W=2**N
FULL=z3.BitVecVal(2**W-1,W)
class F:  # truth-table formula
    def __init__(self,bv): self.bv=bv
def And(*a):
    if len(a)==1 and isinstance(a[0],(list,tuple)): a=a[0]
    r=FULL
    for x in a: r=r&x.bv
    return F(r)
def Or(*a):
    if len(a)==1 and isinstance(a[0],(list,tuple)): a=a[0]
    r=z3.BitVecVal(0,W)
    for x in a: r=r|x.bv
    return F(r)
def Not(a): return F(~a.bv)
def Implies(a,b): return F(~a.bv|b.bv)
class Solver:
    def __init__(self,name=None): self.stack=[[]]
    def __enter__(self): return self
    def __exit__(self,*a): return False
    def push(self): self.stack.append([])
    def pop(self): self.stack.pop()
    def add_assertion(self,f): self.stack[-1].append(f.bv)
    def solve(self):
        r=FULL
        for fr in self.stack:
            for b in fr: r=r&b
        return bool(SymBool(r!=0))
cs.Solver=Solver; cs.Implies=Implies
cond_mod.And=And; cond_mod.Not=Not; cond_mod.Or=Or

A=[z3.BitVec(f"A{i}",W) for i in range(M)]
B=[z3.BitVec(f"B{i}",W) for i in range(M)]
def spec_layers(weakly):
    # layer index per conditional as z3 Int expr; -1 = not placed
    ver=[A[i]&B[i] for i in range(M)]; mat=[~A[i]|B[i] for i in range(M)]
    placed=[z3.BoolVal(False)]*M; layer=[z3.IntVal(-1)]*M
    for L in range(M):
        know=FULL
        for j in range(M): know=know & z3.If(placed[j],FULL,mat[j])
        tol=[z3.And(z3.Not(placed[i]), (know&ver[i])!=0) for i in range(M)]
        layer=[z3.If(tol[i],z3.IntVal(L),layer[i]) for i in range(M)]
        placed=[z3.Or(placed[i],tol[i]) for i in range(M)]
    return layer, placed
def run(eng):
    conds={i+1:Conditional(F(B[i]),F(A[i]),f"c{i+1}") for i in range(M)}
    bb=BeliefBase([],conds,"sym")
    part,_=cs.consistency(bb,"z3",False)
    return conds,part
stats={"viol":0}
layer,placed=spec_layers(False)
def check(eng,res):
    conds,part=res
    s=eng.s
    if part is False:
        neg=z3.And(*placed)   # spec says consistent
    else:
        got={}
        for L,lay in enumerate(part):
            for c in lay: got[int(c.textRepresentation[1:])-1]=L
        neg=z3.Or([layer[i]!=got.get(i,-1) for i in range(M)]+[z3.Not(z3.And(*placed))])
    s.push(); s.add(neg); r=s.check(); s.pop()
    if r!=z3.unsat:
        stats["viol"]+=1
eng=Engine(); eng.assumptions=[]; symex.ENG=eng
t=time.time(); n=eng.run_all(run,check)
print("N",N,"M",M,"paths",n,"checks",eng.checks,"viol",stats["viol"],"time %.1fs"%(time.time()-t))
