import os; os.environ["INFOCF_LOGLEVEL"]="ERROR"
import warnings; warnings.filterwarnings("ignore")
import itertools, time
import z3
from pysmt.shortcuts import Symbol, And, Or, Not, TRUE, FALSE, Solver
from inference.conditional import Conditional
from inference.belief_base import BeliefBase
from inference.inference_manager import create_epistemic_state
from inference.tseitin_transformation import TseitinTransformation
a,b=Symbol("a"),Symbol("b")
leaves=[a,b,Not(a),Not(b),TRUE(),FALSE()]
forms=list(leaves)
for x,y in itertools.product(leaves,leaves):
    forms.append(And(x,y)); forms.append(Or(x,y))
forms+= [Not(And(a,b)),Not(Or(a,b)),And(Or(a,b),Not(And(a,b))),Or(And(a,b),And(Not(a),Not(b)))]
print(len(forms))
conds={}
k=0
for A in forms:
    for B in forms:
        k+=1; conds[k]=Conditional(B,A,f"({B}|{A})")
bb=BeliefBase(["a","b"],conds,"tv")
es=create_epistemic_state(bb,"system-w","z3","rc2",False)
t0=time.time()
T=TseitinTransformation(es); T.belief_base_to_cnf(True,True,True)
print("tseitin time",time.time()-t0, "conds",len(conds))
pool=es["pool"]
za,zb=z3.Bool("a"),z3.Bool("b")
with Solver(name="z3") as s: conv=s.converter
def tv(cnf, phi):
    ids=sorted({abs(l) for c in cnf for l in c})
    var={}
    for i in ids:
        o=pool.id2obj[i]
        if isinstance(o,z3.ExprRef) and z3.is_const(o) and o.decl().name() in ("a","b") : var[i]=z3.Bool(o.decl().name())
        else: var[i]=z3.Bool(f"aux{i}")
    aux=[v for i,v in var.items() if str(v).startswith("aux")]
    C=z3.And([z3.Or([var[abs(l)] if l>0 else z3.Not(var[abs(l)]) for l in c]) for c in cnf]+[z3.BoolVal(True)])
    s=z3.Solver(); s.add(C, z3.Not(phi))
    if s.check()==z3.sat: return "cnf-admits-nonmodel", s.model()
    s=z3.Solver(); s.add(phi, z3.ForAll(aux, z3.Not(C)) if aux else z3.Not(C))
    r=s.check()
    if r==z3.sat: return "model-not-extendable", s.model()
    assert r==z3.unsat
    return None
bad=0; t0=time.time(); n=0
for k,c in conds.items():
    A=conv.convert(c.antecedence); B=conv.convert(c.consequence)
    for nm,phi in (("v_cnf_dict",z3.And(A,B)),("f_cnf_dict",z3.And(A,z3.Not(B))),("nf_cnf_dict",z3.Or(z3.Not(A),B))):
        n+=1
        r=tv(es[nm][k],phi)
        if r:
            bad+=1
            if bad<=8: print("BAD",nm,c,es[nm][k],r[0])
print("queries",n,"bad",bad,"time",time.time()-t0)
