import os, sys, time
os.environ["INFOCF_LOGLEVEL"]="ERROR"
sys.path.insert(0,"/repo")
import infocf
import z3, symex2 as symex, stubs, stubz3
from symex2 import Engine, SymBool
from stubs import F
OPNAME=sys.argv[1]; N=int(sys.argv[2]); M=int(sys.argv[3]); PM=sys.argv[4]; WEAK=sys.argv[5]=='1'
stubs.setN(N); W=stubs.W; FULL=stubs.FULL
import inference.consistency_sat as cs, inference.conditional as cm, inference.inference as inf, inference.system_z as sz
import inference.system_w as sw, inference.tseitin_transformation as tt, inference.optimizer as om, inference.p_entailment as pe, inference.lex_inf as lx
import inference.system_w_z3 as swz, inference.lex_inf_z3 as lxz, inference.conditional_z3 as cz
from inference.inference_manager import create_epistemic_state, create_inference_instance
from inference.conditional import Conditional
from inference.belief_base import BeliefBase
for m in (cs,inf,sz,pe,tt,lx,cz):
    for nm in ("Solver","Implies","And","Not","Or","is_sat","is_unsat"):
        if hasattr(m,nm): setattr(m,nm,getattr(stubs,nm))
for nm in ("And","Not","Or"): setattr(cm,nm,getattr(stubs,nm))
tt.z3=stubs.FakeZ3; om.RC2=stubs.RC2
for m in (swz,lxz):
    m.z3=stubz3.FakeZ3ns; m.Or=stubs.Or; m.Solver=stubz3.SolverZ; m.is_true=stubz3.is_true; m.unsat=stubz3.unsat
A=[z3.BitVec(f"A{i}",W) for i in range(M)]; B=[z3.BitVec(f"B{i}",W) for i in range(M)]
QA=z3.BitVec("QA",W); QB=z3.BitVec("QB",W)
def bit(bv,w): return z3.Extract(w,w,bv)==1
ver=[A[i]&B[i] for i in range(M)]; mat=[~A[i]|B[i] for i in range(M)]
placed=[z3.BoolVal(False)]*M; layer=[z3.IntVal(-1)]*M
for L in range(M):
    know=FULL
    for j in range(M): know=know & z3.If(placed[j],FULL,mat[j])
    tol=[z3.And(z3.Not(placed[i]), (know&ver[i])!=0) for i in range(M)]
    layer=[z3.If(tol[i],z3.IntVal(L),layer[i]) for i in range(M)]
    placed=[z3.Or(placed[i],tol[i]) for i in range(M)]
FEAS=FULL
for i in range(M): FEAS=FEAS & z3.If(placed[i],FULL,mat[i])
accepted = (FEAS!=0) if WEAK else z3.And(*placed)
fals=[[bit(A[i]&~B[i],w) for w in range(W)] for i in range(M)]
feas=[bit(FEAS,w) for w in range(W)] if WEAK else [z3.BoolVal(True)]*W
def spec_w():
    def less(w,v):
        alts=[]
        for L in range(M):
            eq_above=z3.And([z3.Implies(layer[i]>L, fals[i][w]==fals[i][v]) for i in range(M)]+[True])
            sub=z3.And([z3.Implies(layer[i]==L, z3.Implies(fals[i][w],fals[i][v])) for i in range(M)]+[True])
            strict=z3.Or([z3.And(layer[i]==L, z3.Not(fals[i][w]), fals[i][v]) for i in range(M)]+[False])
            alts.append(z3.And(eq_above,sub,strict))
        return z3.Or(alts)
    return z3.And([z3.Implies(z3.And(feas[v],bit(QA&~QB,v)), z3.Or([z3.And(feas[w],bit(QA&QB,w),less(w,v)) for w in range(W)])) for v in range(W)])
def spec_z():
    INF=M+5; rank=[]
    for w in range(W):
        r=z3.IntVal(0)
        for i in range(M): r=z3.If(z3.And(fals[i][w], layer[i]+1>r), layer[i]+1, r)
        rank.append(r)
    def frank(bv):
        r=z3.IntVal(INF)
        for w in range(W): r=z3.If(z3.And(feas[w],bit(bv,w), rank[w]<r), rank[w], r)
        return r
    return z3.Or(frank(QA&~QB)==INF, frank(QA&QB)<frank(QA&~QB))
SPEC={'system-w':spec_w,'system-z':spec_z}[OPNAME]()
def run(eng):
    stubs._cnt[0]=0
    conds={i+1:Conditional(F(B[i]),F(A[i]),f"c{i+1}") for i in range(M)}
    bb=BeliefBase([],conds,"sym")
    es=create_epistemic_state(bb,OPNAME,"z3",PM,WEAK)
    op=create_inference_instance(es)
    from pysat.card import IDPool
    es["pool"]=IDPool(); stubs.POOL[0]=es["pool"]
    try: op.preprocess_belief_base(0)
    except AssertionError as e: return ("refused",str(e))
    q=Conditional(F(QB),F(QA),"q")
    try: return ("ans",op.general_inference(q))
    except Exception as e: return ("exc",repr(e))
stats={"viol":0,"refused":0,"ans":0,"exc":0,"models":[]}
def check(eng,res):
    s=eng.s; stats[res[0]]+=1
    if res[0]=="refused": neg=accepted
    elif res[0]=="exc": neg=z3.BoolVal(True)
    else: neg=z3.Or(z3.Not(accepted), SPEC!=z3.BoolVal(res[1]))
    s.push(); s.add(neg); r=s.check()
    if r!=z3.unsat:
        stats["viol"]+=1
        if len(stats["models"])<2:
            m=s.model(); stats["models"].append((res,{str(d):m[d] for d in m.decls() if str(d)[0] in "ABQ"}))
    s.pop()
eng=Engine(); symex.ENG=eng
t=time.time(); eng.run_all(run,check)
print(OPNAME,PM,"weak" if WEAK else "strict","N",N,"M",M,"paths",eng.paths,"checks",eng.checks,stats["refused"],stats["ans"],stats["exc"],"viol",stats["viol"],"time %.1fs solver %.1fs"%(time.time()-t,eng.solver_time))
for m in stats["models"]: print("  CEX",m)
