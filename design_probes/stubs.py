"""probe stubs: truth-table pysmt, semantic tseitin, symbolic RC2"""
import z3, symex2 as symex
from symex2 import SymBool
N=None; W=None; FULL=None
def setN(n):
    global N,W,FULL
    N=n; W=2**n; FULL=z3.BitVecVal(2**W-1,W)
class F:
    __slots__=("bv","op","args","name")
    def __init__(self,bv,op=None,args=(),name=None): self.bv=bv; self.op=op; self.args=args; self.name=name
    def __eq__(self,o):
        if o is False: return Not(self)
        if o is True: return self
        return self is o
    def __hash__(self): return id(self)
    def bit(self,w):  # w: concrete int world -> z3 Bool
        return z3.Extract(w,w,self.bv)==1
def _flat(a):
    if len(a)==1 and isinstance(a[0],(list,tuple)): a=tuple(a[0])
    return a
def And(*a):
    a=_flat(a); r=FULL
    for x in a: r=r&x.bv
    return F(r,'and',tuple(a))
def Or(*a):
    a=_flat(a); r=z3.BitVecVal(0,W)
    for x in a: r=r|x.bv
    return F(r,'or',tuple(a))
def Not(a): return F(~a.bv,'not',(a,))
def Implies(a,b): return F(~a.bv|b.bv,'or',(Not(a),b))
def TRUE(): return F(FULL,'true')
def FALSE(): return F(z3.BitVecVal(0,W),'false')
def is_sat(f): return bool(SymBool(f.bv!=0))
def is_unsat(f): return not is_sat(f)
class _Conv:
    def convert(self,f): return f
class Solver:
    def __init__(self,name=None): self.stack=[[]]; self.converter=_Conv()
    def __enter__(self): return self
    def __exit__(self,*a): return False
    def push(self): self.stack.append([])
    def pop(self): self.stack.pop()
    def add_assertion(self,f): self.stack[-1].append(f.bv)
    def solve(self):
        r=FULL
        for fr in self.stack:
            for b in fr: r=r&b
        return bool(SymBool(r!=0))
# ---------------- stub z3 namespace for tseitin_transformation
class Lit:
    """clause-level literal expr: leaf F or negated leaf"""
    def __init__(self,f,neg=False): self.f=f; self.neg=neg
    def children(self): return [Lit(self.f)]
    def __hash__(self): return hash((id(self.f),self.neg))
    def __eq__(self,o): return isinstance(o,Lit) and o.f is self.f and o.neg==self.neg
class Clause:
    def __init__(self,lits): self.lits=lits
    def children(self): return self.lits
def nnf(f,neg=False):
    if f.op=='not': return nnf(f.args[0],not neg)
    if f.op in('and','or'):
        op=f.op if not neg else ('or' if f.op=='and' else 'and')
        return (op,[nnf(a,neg) for a in f.args])
    if f.op=='true': return ('and',[]) if not neg else ('or',[])
    if f.op=='false': return ('or',[]) if not neg else ('and',[])
    return ('lit',Lit(f,neg))
def cnf(t):
    if t[0]=='lit': return [[t[1]]]
    if t[0]=='and':
        r=[]
        for a in t[1]: r+=cnf(a)
        return r
    r=[[]]
    for a in t[1]:
        ca=cnf(a); r=[x+y for x in r for y in ca]
    return r
class FakeZ3:
    And=staticmethod(And); Or=staticmethod(Or); Not=staticmethod(Not)
    Goal=object; ExprRef=object
    @staticmethod
    def Tactic(name):
        def t(f):
            goal=[]
            for cl in cnf(nnf(f)):
                if len(cl)==0: goal.append(Lit(FALSE()))   # mimic z3: goal [False]
                elif len(cl)==1: goal.append(cl[0])
                else: goal.append(Clause(cl))
            return [goal]
        return t
    @staticmethod
    def is_or(e): return isinstance(e,Clause)
    @staticmethod
    def is_not(e): return isinstance(e,Lit) and e.neg
# ---------------- symbolic RC2
class SymLit:
    def __init__(self,var,val): self.var=var; self.val=val   # val z3 Bool: var is true
    def __eq__(self,o):
        if isinstance(o,int):
            if abs(o)!=self.var: return False
            return SymBool(self.val if o>0 else z3.Not(self.val))
        return NotImplemented
    def __hash__(self): return self.var
_cnt=[0]
def fresh(p,sort=None):
    _cnt[0]+=1
    return z3.Bool(f"{p}!{_cnt[0]}") if sort is None else z3.Const(f"{p}!{_cnt[0]}",sort)
POOL=[None]
class RC2:
    def __init__(self,wcnf,solver='g3'):
        self.hard=[list(c) for c in wcnf.hard]; self.soft=[list(c) for c in wcnf.soft]
        assert all(w==1 for w in wcnf.wght)
        self.cost=None; self.engine=solver
    def __enter__(self): return self
    def __exit__(self,*a): return False
    def add_clause(self,c): self.hard.append(list(c))
    def _vars(self):
        vs=set()
        for c in self.hard+self.soft:
            for l in c: vs.add(abs(l))
        return sorted(vs)
    def _val(self,var,w,h):
        obj=POOL[0].id2obj[var]
        if isinstance(obj,Lit): return obj.f.bit(w) if isinstance(w,int) else lookup(obj.f.bv,w)
        return h[var]
    def _clause(self,c,w,h):
        return z3.Or([ (self._val(abs(l),w,h) if l>0 else z3.Not(self._val(abs(l),w,h))) for l in c])
    def compute(self):
        eng=symex.ENG
        vs=self._vars()
        helpers=[v for v in vs if not isinstance(POOL[0].id2obj[v],Lit)]
        # symbolic world: one-hot choice via BitVec index
        w=fresh("w",z3.BitVecSort(max(N,1)))
        h={v:fresh("h") for v in helpers}
        def hardf(w_,h_): return z3.And([self._clause(c,w_,h_) for c in self.hard]+[z3.BoolVal(True)])
        def costf(w_,h_): return z3.Sum([z3.If(self._clause(c,w_,h_),0,1) for c in self.soft]+[z3.IntVal(0)])
        # satisfiable?
        import itertools
        allw=range(W)
        allh=[dict(zip(helpers,[z3.BoolVal(b) for b in bs])) for bs in itertools.product([False,True],repeat=len(helpers))]
        anysat=z3.Or([hardf(cw,ch) for cw in allw for ch in allh])
        if not bool(SymBool(anysat)):
            return None
        eng.add(hardf(w,h))
        c=costf(w,h)
        for cw in allw:
            for ch in allh:
                eng.add(z3.Implies(hardf(cw,ch), costf(cw,ch)>=c))
        # concretise cost
        cost=None
        for k in range(len(self.soft)+1):
            if bool(SymBool(c==k)): cost=k; break
        self.cost=cost
        return [SymLit(v,self._val(v,w,h)) for v in vs]
def lookup(bv,w):
    # bit number w (symbolic BitVec N) of bv (BitVec W)
    return z3.Extract(0,0,z3.LShR(bv,z3.ZeroExt(W-N,w)))==1
