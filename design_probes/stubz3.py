import z3, symex2 as symex, stubs
from symex2 import SymBool
from stubs import F, And, Or, Not, TRUE, FALSE, lookup, fresh
class _R:
    def __init__(s,n): s.n=n
    def __repr__(s): return s.n
sat=_R("sat"); unsat=_R("unsat"); unknown=_R("unknown")
class Val:
    def __init__(s,e): s.e=e
def is_true(v): return bool(SymBool(v.e))
class Model:
    def __init__(s,w): s.w=w
    def eval(s,f,model_completion=False): return Val(lookup(f.bv,s.w))
class Optimize:
    def __init__(s): s.fr=[([],[])]
    def set(s,*a,**k): pass
    def push(s): s.fr.append(([],[]))
    def pop(s): s.fr.pop()
    def add(s,*fs):
        for f in fs: s.fr[-1][0].append(f.bv)
    def add_soft(s,f,weight=1,id=None): s.fr[-1][1].append(f.bv)
    def _H(s):
        r=stubs.FULL
        for h,_ in s.fr:
            for b in h: r=r&b
        return r
    def _soft(s): return [b for _,sf in s.fr for b in sf]
    def check(s):
        return sat if bool(SymBool(s._H()!=0)) else unsat
    def model(s):
        eng=symex.ENG; H=s._H(); soft=s._soft()
        w=fresh("w",z3.BitVecSort(stubs.N))
        def cost(bitf): return z3.Sum([z3.If(bitf(b),0,1) for b in soft]+[z3.IntVal(0)])
        cw=cost(lambda b: lookup(b,w))
        eng.add(lookup(H,w))
        for v in range(stubs.W):
            eng.add(z3.Implies(z3.Extract(v,v,H)==1, cost(lambda b: z3.Extract(v,v,b)==1)>=cw))
        return Model(w)
class SolverZ:
    def __init__(s): s.a=[]
    def add(s,*fs):
        for f in fs: s.a.append(f.bv)
    def check(s):
        r=stubs.FULL
        for b in s.a: r=r&b
        return sat if bool(SymBool(r!=0)) else unsat
class FakeZ3ns:
    Optimize=Optimize
    @staticmethod
    def BoolVal(b): return TRUE() if b else FALSE()
