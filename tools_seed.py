#!/usr/bin/env python3
"""Bookkeeping for seeded changes (mutants) under /verif/seeded/<name>/.

  tools_seed.py confirm <name> <agent worktree> <property id>
      copies patch.diff / demo.py / notes.md, then in a FRESH scratch worktree of /repo HEAD:
      demo exits 0 without the patch, exits 1 with it, and the repository's test-suite
      result with the patch equals the baseline (81 passed, 1 known failure).
  tools_seed.py run <name> <check id> [<check id> ...]
      applies the patch to /repo, runs ./check <id> --tier quick for each id, undoes the patch,
      records exit codes / VIOLATION lines in meta.json.
"""
import json, os, shutil, subprocess, sys, time
V = "/verif"
PY = "/venv/bin/python"

def sh(cmd, cwd=None, timeout=3600):
    p = subprocess.run(cmd, shell=True, cwd=cwd, capture_output=True, text=True, timeout=timeout)
    return p.returncode, p.stdout + p.stderr

def load(d):
    p = os.path.join(d, "meta.json")
    return json.load(open(p)) if os.path.exists(p) else {}

def save(d, m):
    json.dump(m, open(os.path.join(d, "meta.json"), "w"), indent=1)

def confirm(name, wt, pid, run_tests=True):
    d = os.path.join(V, "seeded", name)
    os.makedirs(d, exist_ok=True)
    for f in ("patch.diff", "demo.py", "notes.md"):
        if os.path.exists(os.path.join(wt, f)):
            shutil.copy(os.path.join(wt, f), os.path.join(d, f))
    scratch = "/tmp/confirm_%s" % name
    sh("git -C /repo worktree remove --force %s" % scratch)
    rc, out = sh("git -C /repo worktree add --detach %s HEAD" % scratch)
    m = load(d)
    m.update(name=name, breaks_property=pid, confirmed_at_repo_head=sh("git -C /repo rev-parse --short HEAD")[1].strip())
    try:
        shutil.copy(os.path.join(d, "demo.py"), os.path.join(scratch, "demo.py"))
        rc0, o0 = sh("%s demo.py" % PY, cwd=scratch, timeout=900)
        rca, oa = sh("git apply %s" % os.path.join(d, "patch.diff"), cwd=scratch)
        if rca != 0:
            rca, oa = sh("git apply -3 %s" % os.path.join(d, "patch.diff"), cwd=scratch)
        rc1, o1 = sh("%s demo.py" % PY, cwd=scratch, timeout=900)
        m["ran"] = {"demo_without_patch_exit": rc0, "patch_applies": rca == 0, "demo_with_patch_exit": rc1,
                    "demo_with_patch_output_tail": o1[-600:]}
        if run_tests:
            rct, ot = sh("%s -m pytest -q -p no:cacheprovider --timeout=900 unittests 2>&1 | tail -3" % PY, cwd=scratch, timeout=1800)
            m["ran"]["testsuite_with_patch"] = ot.strip().splitlines()[-1] if ot.strip() else ""
            m["ran"]["testsuite_failed_tests"] = [l for l in ot.splitlines() if l.startswith("FAILED")]
        ts = m["ran"].get("testsuite_with_patch", "")
        # baseline of the pinned tree: 81 passed + 1 known failure; after the fix of the defect behind that failure: 82 passed
        base_ok = ("81 passed" in ts and "1 failed" in ts) or ("82 passed" in ts and "failed" not in ts)
        ok = rc0 == 0 and rca == 0 and rc1 == 1 and (not run_tests or base_ok)
        m["confirmed"] = bool(ok)
    finally:
        sh("git -C /repo worktree remove --force %s" % scratch)
    save(d, m)
    print(json.dumps(m, indent=1))

def run(name, pids, tier="quick"):
    d = os.path.join(V, "seeded", name)
    m = load(d)
    rc, out = sh("git -C /repo status --porcelain --untracked-files=no")
    assert out.strip() == "", "/repo is dirty: " + out
    rca, oa = sh("git -C /repo apply %s" % os.path.join(d, "patch.diff"))
    if rca != 0:
        rca, oa = sh("git -C /repo apply -3 %s" % os.path.join(d, "patch.diff"))
    assert rca == 0, oa
    res = m.setdefault("checks", {})
    try:
        for pid in pids:
            t = time.time()
            rc, out = sh("./check %s --tier %s" % (pid, tier), cwd=V, timeout=2700)
            viol = [l for l in out.splitlines() if l.startswith("VIOLATION") or l.startswith("  what:")]
            res[pid] = dict(exit=rc, tier=tier, wall_s=round(time.time() - t, 1), violation_lines=viol[:6],
                            tail=[l for l in out.splitlines() if "INCONCLUSIVE" in l or "done:" in l][-3:])
            print(pid, "exit", rc, viol[:2], flush=True)
    finally:
        sh("git -C /repo checkout -- . && git -C /repo reset -q")
        rc, out = sh("git -C /repo status --porcelain --untracked-files=no")
        assert out.strip() == "", out
    m["detected_by"] = sorted(p for p, r in res.items() if r["exit"] == 1)
    save(d, m)

if __name__ == "__main__":
    if sys.argv[1] == "confirm":
        confirm(sys.argv[2], sys.argv[3], sys.argv[4], run_tests=("--notests" not in sys.argv))
    elif sys.argv[1] == "run":
        tier = "quick"
        args = [a for a in sys.argv[3:] if not a.startswith("--")]
        if "--thorough" in sys.argv:
            tier = "thorough"
        run(sys.argv[2], args, tier)
