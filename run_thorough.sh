#!/bin/bash
# Thorough tier, cheapest first; one line per check. Usage: ./run_thorough.sh [per-check timeout s]
cd "$(dirname "$0")"
for id in ${THOROUGH_IDS:-C18 C19 C20 C06 C02 C01 C15 C16 C17 C12 C11 C08 C13 C14 C09 C07 C03 C04 C05}; do
  s=$(date +%s)
  timeout ${1:-5400} ./check $id --tier thorough > thorough_$id.log 2>&1
  rc=$?
  echo "$id exit=$rc wall=$(( $(date +%s) - s ))s $(grep -c '^VIOLATION' thorough_$id.log) violations $(grep -c '^KNOWN-FINDING' thorough_$id.log) known $(grep -c 'INCONCLUSIVE' thorough_$id.log) inconclusive"
done
