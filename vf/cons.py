"""C06 harnesses: consistency / tolerance partition / diagnostics / refusal."""
from __future__ import annotations

from .rz3 import Z
from . import symex, ops, specs, tt, concretise
from .tt import CTX
from .specs import iv, bv


class ConsHarness(symex.Harness):
    """consistency() and consistency_indices() on a symbolic base, both modes."""

    def __init__(self, N, M, weakly, variant, keys=None):
        ops.setup()
        self.N, self.M, self.weakly, self.variant = N, M, weakly, variant
        self.keys = keys or list(range(1, M + 1))
        self.sb = ops.SymBase(N, M, 0)
        A, B, _, _ = self.sb.tables()
        self.spec = specs.BaseSpec(A, B)
        self.label = "consistency[%s]/%s N=%d M=%d keys=%s" % (variant, "ext" if weakly else "strict", N, M, self.keys)
        self.reset()

    def reset(self):
        self.counts = {"partition": 0, "rejected": 0, "exc": 0}
        self.viol, self.samples, self.witness = [], [], {}

    def collect(self):
        return dict(counts=self.counts, viol=self.viol, samples=self.samples, witness=self.witness, entered=sorted(ops.ENTERED))

    def merge(self, s):
        for k, v in s["counts"].items():
            self.counts[k] += v
        self.viol.extend(s["viol"])
        self.samples.extend(s["samples"])
        for k, v in s["witness"].items():
            self.witness[k] = self.witness.get(k, 0) + v
        ops.ENTERED.update(s["entered"])

    def mk_engine(self):
        tt.set_universe(self.N)
        return symex.Engine()

    def run(self, eng):
        R = ops.R
        conds = {}
        for pos in range(self.M):
            c = R["Conditional"](self.sb.side("B", pos), self.sb.side("A", pos), "c%d" % self.keys[pos])
            conds[self.keys[pos]] = c
        bb = R["BeliefBase"](list(CTX.atom_names), conds, "sym")
        try:
            if self.variant == "objects":
                part, stats = R["cs"].consistency(bb, "z3", self.weakly)
                if part is not False:
                    inv = {id(c): k for k, c in conds.items()}
                    part = [[inv[id(c)] for c in layer] for layer in part]
            else:
                part, stats = R["cs"].consistency_indices(bb, "z3", self.weakly)
            if part is False:
                return ("rejected",)
            return ("partition", [list(l) for l in part])
        except Exception as e:  # noqa: BLE001
            if isinstance(e, symex.Inconclusive):
                raise
            return ("exc", type(e).__name__, str(e)[:200])

    def good(self, res):
        """z3 term: the result is exactly what the definition prescribes."""
        sp = self.spec
        if res[0] == "rejected":
            return Z.Not(sp.weakly_consistent if self.weakly else sp.consistent)
        if res[0] == "exc":
            return Z.BoolVal(False)
        part = res[1]
        pos_of = {k: i for i, k in enumerate(self.keys)}
        cs = [sp.weakly_consistent if self.weakly else sp.consistent]
        finite = part[:-1] if self.weakly else part
        if self.weakly and not part:
            return Z.BoolVal(False)
        seen = []
        for L, layer in enumerate(finite):
            if not layer:
                return Z.BoolVal(False)        # finite layers are never empty
            for k in layer:
                if k not in pos_of or k in seen:
                    return Z.BoolVal(False)
                seen.append(k)
                cs.append(Z.And(sp.placed[pos_of[k]], sp.layer[pos_of[k]] == iv(L)))
            # (the order of the conditionals inside a layer is not part of the property)
        if self.weakly:
            for k in part[-1]:
                if k not in pos_of or k in seen:
                    return Z.BoolVal(False)
                seen.append(k)
                cs.append(Z.Not(sp.placed[pos_of[k]]))
        if sorted(seen) != sorted(self.keys):
            return Z.BoolVal(False)
        return Z.And(*cs)

    def on_path(self, eng, res):
        self.counts[res[0]] += 1
        m = eng.vc(Z.Not(self.good(res)))
        if m is not None and len(self.viol) < 20:
            self.viol.append(dict(res=list(res), vars={str(v): concretise.model_int(m, v) for v in self.sb.vars}))
        if res[0] == "partition" and isinstance(res[1], list):
            k = "layers=%d%s" % (len(res[1]), "+inf" if self.weakly and res[1][-1] else "")
            self.witness[k] = self.witness.get(k, 0) + 1
        if len(self.samples) < 2:
            ms = eng.vc(Z.BoolVal(True))
            if ms is not None:
                self.samples.append(dict(config=self.label, result=list(res), tables={str(v): concretise.model_int(ms, v) for v in self.sb.vars}))

    def replay(self, cand):
        vars_ = cand["vars"]
        tt.set_universe(self.N)
        base = []
        for pos in range(self.M):
            c = concretise.table_to_tree(vars_["B%d" % pos])
            a = concretise.table_to_tree(vars_["A%d" % pos])
            base.append([self.keys[pos], c, a, "(%s|%s)" % (concretise.tree_to_text(c), concretise.tree_to_text(a))])
        job = {"atoms": list(CTX.atom_names), "steps": [{"op": "consistency", "base": base, "weakly": self.weakly, "variant": self.variant}]}
        out = concretise.run_real(job)
        rec = dict(harness=self.label, tables=vars_, job=job, real=out, symbolic_result=cand["res"])
        if "steps" not in out:
            return "error", rec
        st = out["steps"][0]
        if "exc" in st:
            res = ("exc",) + tuple(st["exc"])
        elif st["ok"] is False:
            res = ("rejected",)
        else:
            res = ("partition", st["ok"])
        rec["observed"] = list(res)
        s = Z.Solver()
        for v in self.sb.vars:
            s.add(v == vars_[str(v)])
        s.add(Z.Not(self.good(res)))
        bad = s.check() == Z.sat
        rec["expected"] = "the unique tolerance partition of the definition (see tables)"
        return ("confirmed" if bad else "not_reproduced"), rec


class DiagHarness(symex.Harness):
    """consistency_diagnostics on a symbolic base with K symbolic facts."""

    def __init__(self, N, M, K, extended):
        ops.setup()
        self.N, self.M, self.K, self.extended = N, M, K, extended
        self.sb = ops.SymBase(N, M, 0)
        W = CTX.W
        self.facts = [Z.BitVec("F%d" % i, W) for i in range(K)]
        self.sb.vars = self.sb.vars + self.facts
        A, B, _, _ = self.sb.tables()
        self.spec = specs.BaseSpec(A, B)
        self.comb = specs.BaseSpec(A + [~f for f in self.facts], B + [0] * K)
        self.label = "diagnostics/%s N=%d M=%d facts=%d" % ("ext" if extended else "strict", N, M, K)
        self.reset()

    reset = ConsHarness.reset
    collect = ConsHarness.collect
    merge = ConsHarness.merge
    mk_engine = ConsHarness.mk_engine

    def run(self, eng):
        R = ops.R
        import inference.consistency_diagnostics as cd
        conds = {}
        for pos in range(self.M):
            conds[pos + 1] = R["Conditional"](self.sb.side("B", pos), self.sb.side("A", pos), "c%d" % (pos + 1))
        sig = list(CTX.atom_names) + ["F%d" % i for i in range(self.K)]
        bb = R["BeliefBase"](sig, conds, "sym")
        facts = [tt.Leaf("F%d" % i, self.facts[i]) for i in range(self.K)]
        try:
            d = cd.consistency_diagnostics(bb, extended=self.extended, uses_facts=bool(facts), facts=facts or None,
                                           on_inconsistent="silent")
            return ("partition", {k: d.get(k) for k in ("facts_consistent", "belief_base_consistent",
                                                        "belief_base_weakly_consistent", "combination_consistent",
                                                        "combination_infinity_increase")})
        except Exception as e:  # noqa: BLE001
            if isinstance(e, symex.Inconclusive):
                raise
            return ("exc", type(e).__name__, str(e)[:200])

    def good(self, res):
        if res[0] != "partition":
            return Z.BoolVal(False)
        d = res[1]
        sp, cb = self.spec, self.comb
        cs = []

        def eq(key, term):
            v = d.get(key)
            if v is None:
                return
            cs.append(term if v else Z.Not(term))
        if self.K:
            fc = bv(tt.CTX.FULLI)
            for f in self.facts:
                fc = fc & f
            if d.get("facts_consistent") is None:
                return Z.BoolVal(False)
            eq("facts_consistent", fc != bv(0))
        if d.get("belief_base_consistent") is None:
            return Z.BoolVal(False)
        eq("belief_base_consistent", sp.consistent)
        if self.extended:
            if d.get("belief_base_weakly_consistent") is None:
                return Z.BoolVal(False)
            eq("belief_base_weakly_consistent", sp.weakly_consistent)
        if self.K:
            if d.get("combination_consistent") is None:
                return Z.BoolVal(False)
            eq("combination_consistent", cb.weakly_consistent if self.extended else cb.consistent)
            if self.extended:
                n_base = sum([Z.If(p, iv(0), iv(1)) for p in sp.placed], iv(0))
                n_comb = sum([Z.If(p, iv(0), iv(1)) for p in cb.placed], iv(0))
                both = Z.And(sp.weakly_consistent, cb.weakly_consistent)
                v = d.get("combination_infinity_increase")
                if v is None:
                    cs.append(Z.Not(both))      # flag may only be absent when a partition is missing
                else:
                    cs.append(both)
                    cs.append(Z.UGT(n_comb, n_base) if v else Z.Not(Z.UGT(n_comb, n_base)))
        return Z.And(*cs) if cs else Z.BoolVal(True)

    on_path = ConsHarness.on_path

    def replay(self, cand):
        vars_ = cand["vars"]
        tt.set_universe(self.N)
        base = []
        for pos in range(self.M):
            c = concretise.table_to_tree(vars_["B%d" % pos])
            a = concretise.table_to_tree(vars_["A%d" % pos])
            base.append([pos + 1, c, a, "(%s|%s)" % (concretise.tree_to_text(c), concretise.tree_to_text(a))])
        facts = [concretise.table_to_tree(vars_["F%d" % i]) for i in range(self.K)]
        job = {"atoms": list(CTX.atom_names), "steps": [{"op": "diagnostics", "base": base, "facts": facts, "extended": self.extended}]}
        out = concretise.run_real(job)
        rec = dict(harness=self.label, tables=vars_, job=job, real=out, symbolic_result=cand["res"])
        if "steps" not in out:
            return "error", rec
        st = out["steps"][0]
        res = ("exc",) + tuple(st["exc"]) if "exc" in st else ("partition", st["ok"])
        rec["observed"] = list(res)
        s = Z.Solver()
        for v in self.sb.vars:
            s.add(v == vars_[str(v)])
        s.add(Z.Not(self.good(res)))
        rec["expected"] = "flags as defined on base and base + (Bottom|!fact)"
        return ("confirmed" if s.check() == Z.sat else "not_reproduced"), rec


class RefusalHarness(ops.OpHarness):
    """Every operator refuses (AssertionError) exactly the bases that are empty or not
    consistent for the selected mode; it answers (no exception) all others."""

    def neg_vc(self, res):
        acc = self.accepted()
        if res[0] == "refused":
            return acc
        return Z.Not(acc)

    def expected(self):
        return None

    def replay(self, cand):
        vars_ = cand["vars"]
        tt.set_universe(self.N)
        s = Z.Solver()
        for v in self.sb.vars:
            s.add(v == vars_[str(v)])
        s.check()
        acc = Z.is_true(s.model().eval(self.accepted(), model_completion=True))
        job = self.concrete_job(vars_)
        out = concretise.run_real(job)
        rec = dict(harness=self.label, tables=vars_, job=job, real=out, symbolic_result=cand["res"],
                   expected="refusal (AssertionError)" if not acc else "an answer")
        if "steps" not in out:
            return "error", rec
        r = out["steps"][1]
        refused = "exc" in r and r["exc"][0] == "AssertionError"
        rec["observed"] = r
        return ("confirmed" if refused == acc else "not_reproduced"), rec
