"""Operator-level harnesses: the repository's inference operators run on a symbolic belief
base and a symbolic query (DESIGN.md 3, C01-C09, C11, C12)."""
from __future__ import annotations

import os
import sys
import time

from .rz3 import Z
from . import symex, tt, fakes, specs, concretise
from .tt import CTX

REPO = os.environ.get("VF_REPO", "/repo")
_SETUP = [False]
R = {}          # repository modules, filled by setup()


def setup():
    """Install the stand-ins and import the repository (once per process)."""
    if _SETUP[0]:
        return R
    os.environ["INFOCF_LOGLEVEL"] = "ERROR"
    os.environ.pop("INFOCF_MULTI", None)
    fakes.install()
    if REPO not in sys.path:
        sys.path.insert(0, REPO)
    import warnings
    warnings.filterwarnings("ignore")
    import infocf  # noqa: F401
    import inference.conditional as cond
    import inference.belief_base as bb
    import inference.inference_manager as im
    import inference.consistency_sat as cs
    import inference.optimizer as om
    import inference.queries as qs
    R.update(cond=cond, bb=bb, im=im, cs=cs, om=om, qs=qs,
             Conditional=cond.Conditional, BeliefBase=bb.BeliefBase, Queries=qs.Queries)
    # deterministic hashing of conditionals (sets of Conditional_z3 are iterated by the repo)
    _serial = [0]

    def _h(self):
        d = self.__dict__
        if "_vf_h" not in d:
            _serial[0] += 1
            d["_vf_h"] = _serial[0]
        return d["_vf_h"]
    cond.Conditional.__hash__ = _h
    R["_serial"] = _serial
    _start_monitor()
    _SETUP[0] = True
    return R


# -- which repository functions were entered (evidence) ----------------------------------
ENTERED = set()


def _start_monitor():
    try:
        mon = sys.monitoring
        tid = 4
        mon.use_tool_id(tid, "vf")

        def on_start(code, off):
            fn = code.co_filename
            if fn.startswith(REPO) and "/unittests/" not in fn:
                ENTERED.add("%s:%s" % (fn[len(REPO) + 1:], code.co_qualname))
            return mon.DISABLE
        mon.register_callback(tid, mon.events.PY_START, on_start)
        mon.set_events(tid, mon.events.PY_START)
    except Exception:
        pass


# -- symbolic inputs ---------------------------------------------------------------------
class SymBase:
    """M symbolic conditionals (B_i|A_i) and K symbolic queries over N atoms."""

    def __init__(self, N, M, K=1, shapes=None, prefix=""):
        tt.set_universe(N)
        W = CTX.W
        self.N, self.M, self.K = N, M, K
        self.A = [Z.BitVec("%sA%d" % (prefix, i), W) for i in range(M)]
        self.B = [Z.BitVec("%sB%d" % (prefix, i), W) for i in range(M)]
        self.QA = [Z.BitVec("%sQA%d" % (prefix, i), W) for i in range(K)]
        self.QB = [Z.BitVec("%sQB%d" % (prefix, i), W) for i in range(K)]
        self.shapes = shapes or {}
        self.vars = self.A + self.B + self.QA + self.QB
        self.extra_leaves = {}

    def leaf(self, name, table):
        return tt.Leaf(name, table)

    def side(self, which, i):
        """Formula object for antecedent ('A') / consequent ('B') of conditional i, or of
        query i ('QA','QB'); honours the shape configuration."""
        tab = {"A": self.A, "B": self.B, "QA": self.QA, "QB": self.QB}[which][i]
        name = "%s%d" % (which, i)
        shp = self.shapes.get((which, i), "leaf")
        if shp == "same_as_0":          # the very same opaque formula as position 0
            return tt.Leaf("%s0" % which, {"A": self.A, "B": self.B, "QA": self.QA, "QB": self.QB}[which][0])
        return build_shape(shp, name, tab, self)

    def tables(self):
        """Semantic tables per side after shapes (what the spec talks about)."""
        return ([self.side("A", i).bv for i in range(self.M)], [self.side("B", i).bv for i in range(self.M)],
                [self.side("QA", i).bv for i in range(self.K)], [self.side("QB", i).bv for i in range(self.K)])


def build_shape(shp, name, tab, sb):
    """Shapes: 'leaf' opaque formula with table `tab`; 'top'/'bot' constants (tab unused);
    'not' = !leaf'; 'and'/'or' = leaf o leaf'; 'and_top' = leaf,Top; 'or_bot' = leaf;Bottom.
    The second leaf of binary shapes gets its own fresh table variable."""
    if shp == "leaf":
        return tt.Leaf(name, tab)
    if shp == "top":
        return tt.TRUE()
    if shp == "bot":
        return tt.FALSE()
    if shp == "not":
        return tt.Not(tt.Leaf(name + "n", tab))
    if shp in ("and", "or", "or_and", "and_or"):
        k = name + "x"
        if k not in sb.extra_leaves:
            sb.extra_leaves[k] = Z.BitVec(k, CTX.W)
            sb.vars.append(sb.extra_leaves[k])
        l1, l2 = tt.Leaf(name, tab), tt.Leaf(k, sb.extra_leaves[k])
        if shp == "and":
            return tt.And(l1, l2)
        if shp == "or":
            return tt.Or(l1, l2)
        k3 = name + "y"
        if k3 not in sb.extra_leaves:
            sb.extra_leaves[k3] = Z.BitVec(k3, CTX.W)
            sb.vars.append(sb.extra_leaves[k3])
        l3 = tt.Leaf(k3, sb.extra_leaves[k3])
        if shp == "or_and":
            return tt.Or(l1, tt.And(l2, l3))
        return tt.And(l1, tt.Or(l2, l3))
    if shp == "deep6":
        # leaf buried below five conjunctions with Top: str() of the formula hides the leaf
        f = tt.Leaf(name, tab)
        for _ in range(5):
            f = tt.And(f, tt.TRUE())
        return f
    if shp == "and_top":
        return tt.And(tt.Leaf(name, tab), tt.TRUE())
    if shp == "or_bot":
        return tt.Or(tt.Leaf(name, tab), tt.FALSE())
    if shp == "top_and":
        return tt.And(tt.TRUE(), tt.Leaf(name, tab))
    raise ValueError(shp)


# -- generic operator harness ------------------------------------------------------------
class OpHarness(symex.Harness):
    """One operator configuration on a symbolic base of exactly M conditionals.

    result kinds: ('refused', msg) preprocessing raised AssertionError; ('ans', bool);
    ('exc', type, msg); ('limit',).
    """

    def __init__(self, system, N, M, pm="rc2", weakly=False, keys=None, shapes=None,
                 level="L1", max_decisions=3000, label=None, order=None, canonical=False, layers=None):
        setup()
        self.system, self.N, self.M, self.pm, self.weakly = system, N, M, pm, weakly
        self.keys = keys or list(range(1, M + 1))
        self.order = order or list(range(M))
        self.level = level
        self.max_decisions = max_decisions
        self.sb = SymBase(N, M, 1, shapes)
        self.label = label or "%s/%s/%s N=%d M=%d %s%s" % (system, pm or "-", "ext" if weakly else "strict", N, M, level,
                                                           " canonical-order" if canonical else "")
        self.canonical = canonical
        self.layers = layers      # slice: conditional i sits in tolerance layer layers[i]
        if layers:
            self.label += " slice-layers=%s" % (layers,)
        A, B, QA, QB = self.sb.tables()
        self.spec = specs.BaseSpec(A, B)
        self.QA, self.QB = QA[0], QB[0]
        self.reset()

    # results
    def reset(self):
        self.counts = {"ans_true": 0, "ans_false": 0, "refused": 0, "exc": 0, "limit": 0}
        self.viol = []          # candidate counterexamples (dicts of ints)
        self.witness = {}
        self.vc = 0
        self.paths_log = []     # (pc-serialisation, result) when summaries are requested
        self.samples = []
        self.known_samples = []
        self.want_summary = getattr(self, "want_summary", False)

    def collect(self):
        return dict(counts=self.counts, viol=self.viol, witness=self.witness, vc=self.vc,
                    entered=sorted(ENTERED), paths=self.paths_log, samples=self.samples,
                    known_samples=self.known_samples)

    def merge(self, s):
        for k, v in s["counts"].items():
            self.counts[k] += v
        self.viol.extend(s["viol"])
        for k, v in s["witness"].items():
            self.witness[k] = self.witness.get(k, 0) + v
        self.vc += s["vc"]
        ENTERED.update(s["entered"])
        self.paths_log.extend(s["paths"])
        self.samples.extend(s["samples"])
        self.known_samples.extend(s["known_samples"])

    def mk_engine(self):
        tt.set_universe(self.N)
        pre = []
        if self.canonical:
            # symmetry breaking: conditionals listed in non-decreasing order of their (A,B)
            # tables; other list orders are the business of C12
            sb = self.sb
            for i in range(self.M - 1):
                pre.append(Z.ULE(Z.Concat(sb.A[i], sb.B[i]), Z.Concat(sb.A[i + 1], sb.B[i + 1])))
        if self.layers:
            for i, L in enumerate(self.layers):
                pre.append(Z.And(self.spec.placed[i], self.spec.layer[i] == specs.iv(L)))
        return symex.Engine(assumptions=pre, max_decisions=self.max_decisions)

    # the code under test
    def make_base(self):
        Cond, BB = R["Conditional"], R["BeliefBase"]
        conds = {}
        for pos in self.order:
            k = self.keys[pos]
            c = Cond(self.sb.side("B", pos), self.sb.side("A", pos), "c%d" % k)
            c.index = k
            conds[k] = c
        return BB(list(CTX.atom_names), conds, "sym")

    def make_query(self, i=0, text="q"):
        return R["Conditional"](self.sb.side("QB", i), self.sb.side("QA", i), text)

    def run(self, eng):
        R["_serial"][0] = 0
        im = R["im"]
        bb = self.make_base()
        es = im.create_epistemic_state(bb, self.system, "z3", self.pm, self.weakly)
        op = im.create_inference_instance(es)
        if self.level == "L2":
            from . import l2
            l2.activate(es)
        try:
            try:
                op.preprocess_belief_base(0)
            except AssertionError as e:
                return ("refused", str(e))
            q = self.make_query()
            return ("ans", op.general_inference(q))
        except Exception as e:  # noqa: BLE001 - BaseException carries engine control flow
            if isinstance(e, symex.Inconclusive):
                raise
            return ("exc", type(e).__name__, str(e)[:200])
        finally:
            if self.level == "L2":
                from . import l2
                l2.deactivate()

    # the verification condition of one path
    def accepted(self):
        return self.spec.accepted_base(self.weakly)

    def expected(self):
        if getattr(self, "_exp", None) is None:
            self._exp = self.build_expected()
        return self._exp

    def build_expected(self):
        return specs.spec_of(self.spec, self.system, self.QA, self.QB, self.weakly)

    def neg_vc(self, res):
        acc = self.accepted()
        if res[0] == "refused":
            return acc
        if res[0] in ("exc", "limit"):
            return acc
        if res[0] == "ans":
            if res[1] is not True and res[1] is not False:
                return acc
            return Z.And(acc, self.expected() != Z.BoolVal(res[1]))
        raise ValueError(res)

    def on_path(self, eng, res):
        kind = res[0]
        if kind == "ans":
            self.counts["ans_true" if res[1] is True else "ans_false"] += 1
        else:
            self.counts[kind] += 1
        self.vc += 1
        neg = self.neg_vc(res)
        preds = self.known_preds()
        m = eng.vc(Z.And(neg, *[Z.Not(p) for _, _, p in preds])) if preds else eng.vc(neg)
        if m is not None:
            if len(self.viol) < 40:
                negk = Z.And(neg, *[Z.Not(p) for _, _, p in preds]) if preds else neg
                for mm in eng.models(negk, self.sb.vars, 3):
                    self.viol.append(dict(res=list(res), vars={str(v): concretise.model_int(mm, v) for v in self.sb.vars}))
            else:
                self.witness["more_violations"] = self.witness.get("more_violations", 0) + 1
        elif preds:
            m2 = eng.vc(neg)
            if m2 is not None:
                for fid, what, p in preds:
                    if Z.is_true(m2.eval(p, model_completion=True)):
                        k = "known:" + fid
                        self.witness[k] = self.witness.get(k, 0) + 1
                        if len(self.known_samples) < 3:
                            self.known_samples.append(dict(fid=fid, res=list(res), vars={str(v): concretise.model_int(m2, v) for v in self.sb.vars}))
                        break
        if kind == "ans" and res[1] in (True, False) and self.witness.get("twin_negated_spec_detected", 0) < 2 and self.expected() is not None:
            # vacuity twin: with the specification negated this path must be refutable
            if eng.vc(Z.And(self.accepted(), Z.Not(self.expected()) != Z.BoolVal(res[1]))) is not None:
                self.witness["twin_negated_spec_detected"] = self.witness.get("twin_negated_spec_detected", 0) + 1
        if len(self.samples) < 2:
            ms = eng.vc(Z.BoolVal(True))
            if ms is not None:
                self.samples.append(dict(config=self.label, decisions=len(eng.frames), result=list(res),
                                         tables={str(v): concretise.model_int(ms, v) for v in self.sb.vars}))
        self.path_witnesses(eng, res)
        if self.want_summary:
            self.paths_log.append((Z.And(*eng.pc()).serialize() if eng.pc() else "", list(res)))

    def known_preds(self):
        return getattr(self, "_known", [])

    def path_witnesses(self, eng, res):
        pass

    # replay of a candidate counterexample on the real stack
    def replay_variants(self):
        if str(self.pm).startswith("rc2"):
            return ["rc2-g4", "rc2-cd", "rc2-m22", "rc2-mgh", "rc2-mc", "rc2-mcb", "rc2-gc3", "rc2-gc4", "rc2-mpl", "rc2-mcm", "rc2-g42", "rc2-cd15", "rc2-cd19", "rc2-mep", "rc2-mg3"]
        return []

    def concrete_job(self, vars_, const="spelled", pm=None):
        def leafval(name):
            return vars_[name]
        sb = self.sb
        base = []
        for pos in self.order:
            k = self.keys[pos]
            c = concretise.formula_tree(sb.side("B", pos), leafval_of(vars_), const)
            a = concretise.formula_tree(sb.side("A", pos), leafval_of(vars_), const)
            base.append([k, c, a, "(%s|%s)" % (concretise.tree_to_text(c), concretise.tree_to_text(a))])
        qc = concretise.formula_tree(sb.side("QB", 0), leafval_of(vars_), const)
        qa = concretise.formula_tree(sb.side("QA", 0), leafval_of(vars_), const)
        q = [[1, qc, qa, "(%s|%s)" % (concretise.tree_to_text(qc), concretise.tree_to_text(qa))]]
        return {"atoms": list(CTX.atom_names), "steps": [
            {"op": "manager", "id": "m", "base": base, "system": self.system, "pmaxsat": pm or self.pm or "rc2", "weakly": self.weakly},
            {"op": "inference", "mgr": "m", "queries": q}]}

    def expected_concrete(self, vars_):
        """Evaluate accepted / spec on concrete tables (fresh solver, no path condition)."""
        s = Z.Solver()
        for v in self.sb.vars:
            s.add(v == vars_[str(v)])
        assert s.check() == Z.sat
        m = s.model()
        acc = Z.is_true(m.eval(self.accepted(), model_completion=True))
        exp = Z.is_true(m.eval(self.expected(), model_completion=True)) if acc else None
        return acc, exp


def leafval_of(vars_):
    def f(name):
        # leaf names: 'A0', 'B1', 'QA0', 'A0x' (second leaf of a binary shape), 'A0n'
        if name in vars_:
            return vars_[name]
        if name.endswith("n") and name[:-1] in vars_:
            return vars_[name[:-1]]
        raise KeyError(name)
    return f


def judge_replay(h, cand, const="spelled"):
    """Replay one candidate on the real stack.  Returns (status, record) with status in
    'confirmed' | 'not_reproduced' | 'error'."""
    vars_ = cand["vars"]
    tt.set_universe(h.N)
    acc, exp = h.expected_concrete(vars_)
    job = h.concrete_job(vars_, const, pm=cand.get("variant"))
    out = concretise.run_real(job)
    rec = dict(harness=h.label, symbolic_result=cand["res"], tables=vars_, job=job, real=out,
               expected=dict(base_accepted=acc, answer=exp))
    if "steps" not in out:
        if "timeout" in out:
            rec["observed"] = "timeout"
            return ("confirmed" if cand["res"][0] == "limit" else "error"), rec
        return "error", rec
    st = out["steps"]
    if "exc" in st[0]:
        rec["observed"] = ["exc"] + st[0]["exc"]
        return "error", rec
    r = st[1]
    if "exc" in r:
        rec["observed"] = ["exc"] + r["exc"]
        refused = r["exc"][0] == "AssertionError" and ("inconsistent" in r["exc"][1] or "empty" in r["exc"][1])
        if refused:
            bad = acc
        else:
            bad = acc          # any other exception on an accepted base violates the property
        return ("confirmed" if bad else "not_reproduced"), rec
    ans = r["ok"][0][1]
    rec["observed"] = ["ans", ans]
    if not acc:
        return "not_reproduced", rec     # answering on a non-accepted base is C06's business
    return ("confirmed" if ans != exp else "not_reproduced"), rec


# -- shape configurations with literal constants ------------------------------------------
def const_shape_configs(weakly=False):
    """Positions of a conditional / query spelled with a literal Top or Bottom, or combined
    with one; all other positions stay opaque leaves.  (Bottom|A) makes a base strictly
    inconsistent, so it is only used in extended mode.)"""
    return [
        {("A", 0): "top"},                      # (B|Top)
        {("B", 0): "bot"} if weakly else {("QB", 0): "bot", ("A", 1): "top"},   # (Bottom|A) / query (Bottom|A)
        {("A", 0): "and_top"},                  # (B|A,Top)
        {("B", 0): "or_bot"},                   # (B;Bottom|A)
        {("QA", 0): "top"},                     # query (B|Top)
        {("QB", 0): "bot"},                     # query (Bottom|A)
        {("A", 0): "top", ("QA", 0): "top"},
    ]


def struct_shape_configs():
    """Compound (non-literal) positions, so that conditionals have multi-clause CNFs."""
    return [
        {("B", 0): "and"},                      # (l,l'|A)
        {("A", 0): "or"},                       # (B|l;l')
        {("B", 0): "or_and"},                   # (l;(l',l'')|A)   -> Tseitin auxiliaries
        {("QB", 0): "and", ("QA", 0): "or"},
        {("B", 0): "not", ("A", 1 if False else 0): "not"},
    ]


def shape_name(sh):
    return ",".join("%s%d=%s" % (k[0], k[1], v) for k, v in sorted(sh.items())) or "leaf"
