"""C19 harnesses: c-revision compilation agreement and revision results."""
from __future__ import annotations

import itertools

from .rz3 import Z
from . import symex, ops, specs, tt, concretise
from .tt import CTX
from .specs import bv, zb
from .ocf import _Base, world_str, world_int, _plain, _conc


def lit(spec):
    """'a0' / '!a1' -> formula"""
    if spec.startswith("!"):
        return tt.Not(tt.Symbol(spec[1:]))
    return tt.Symbol(spec)


class _CRevBase(_Base):
    RMAX = 2

    def setup_inputs(self, N, conds):
        """conds: list of ('lit', cons, ante) or ('opaque',) descriptions, indexed 1.."""
        self.N = N
        tt.set_universe(N)
        W = CTX.W
        self.R = [Z.Int("R%d" % w) for w in range(W)]
        self.cdesc = conds
        self.A, self.B = [], []
        self.vars = list(self.R)
        for i, d in enumerate(conds):
            if d[0] == "opaque":
                a, b = Z.BitVec("A%d" % i, W), Z.BitVec("B%d" % i, W)
                self.vars += [a, b]
            else:
                a, b = lit(d[2]).bv, lit(d[1]).bv
            self.A.append(a)
            self.B.append(b)
        self.M = len(conds)

    def mk_engine(self):
        tt.set_universe(self.N)
        pre = [Z.And(r >= 0, r <= self.RMAX) for r in self.R]
        return symex.Engine(assumptions=pre, max_decisions=8000)

    def make(self):
        from .symint import SymInt
        import inference.preocf as po
        R = ops.R
        ranks = {world_str(w, self.N): SymInt(self.R[w], 0, self.RMAX) for w in range(CTX.W)}
        ocf = po.PreOCF.init_custom(ranks, signature=list(CTX.atom_names))
        conds = []
        for i, d in enumerate(self.cdesc):
            if d[0] == "opaque":
                c = R["Conditional"](tt.Leaf("B%d" % i, self.B[i]), tt.Leaf("A%d" % i, self.A[i]), "c%d" % (i + 1))
            else:
                c = R["Conditional"](lit(d[1]), lit(d[2]), "(%s|%s)" % (d[1], d[2]))
            c.index = i + 1
            conds.append(c)
        return ocf, conds

    def desc_trees(self, vars_):
        out = []
        for i, d in enumerate(self.cdesc):
            if d[0] == "opaque":
                out.append([i + 1, concretise.table_to_tree(vars_["B%d" % i]), concretise.table_to_tree(vars_["A%d" % i])])
            else:
                def t(s):
                    return ["not", ["sym", s[1:]]] if s.startswith("!") else ["sym", s]
                out.append([i + 1, t(d[1]), t(d[2])])
        return out


def _norm(comp):
    """(vMin, fMin) -> comparable structure with symbolic ranks reduced to z3 ids"""
    out = []
    for d in comp:
        nd = {}
        for k, lst in d.items():
            # a per-conditional collection of world triples: compared as a multiset
            nd[int(k)] = sorted(((_rk(t[0]), tuple(sorted(int(x) for x in t[1])), tuple(sorted(int(x) for x in t[2]))) for t in lst), key=repr)
        out.append(nd)
    return out


def _rk(r):
    from .symint import SymInt
    if isinstance(r, SymInt):
        return "sym:%s" % r.e
    return int(r)


class CompileHarness(_CRevBase):
    """compile_alt (reference) = compile_alt_fast = CRevisionModel.to_compilation(), also after
    add/remove sequences on the incremental model."""

    def __init__(self, N, conds, script=None, label=None):
        ops.setup()
        self.setup_inputs(N, conds)
        self.script = script          # list of ('add', i) / ('remove', i) on the incremental model, i = 1-based cond
        self.label = label or "c-revision compile N=%d conds=%s%s" % (N, [d if d[0] == "opaque" else "(%s|%s)" % (d[1], d[2]) for d in conds],
                                                                    (" script=%s" % (script,)) if script else "")
        self.reset()

    def run(self, eng):
        import inference.c_revision as cr
        import inference.c_revision_model as crm
        try:
            ocf, conds = self.make()
            if self.script is None:
                ref = _norm(cr.compile_alt(ocf, conds))
                fast = _norm(cr.compile_alt_fast(ocf, conds))
                inc = _norm(crm.CRevisionModel(ocf, conds).to_compilation())
                return ("ok", ref, fast, inc)
            model = crm.CRevisionModel(ocf, [])
            present = []
            for op, i in self.script:
                if op == "compile":
                    model.to_compilation()          # result discarded: only its side effects matter
                elif op == "add":
                    model.add_conditional(conds[i - 1])
                    present.append(i)
                else:
                    model.remove_conditional(i)
                    if i in present:
                        present.remove(i)
            cur = [conds[i - 1] for i in sorted(present)]
            ref = _norm(cr.compile_alt(ocf, cur))
            inc = _norm(model.to_compilation())
            fresh = _norm(crm.CRevisionModel(ocf, cur).to_compilation())
            return ("ok", ref, fresh, inc)
        except Exception as e:  # noqa: BLE001
            if isinstance(e, symex.Inconclusive):
                raise
            return ("exc", type(e).__name__, str(e)[:200])

    def on_path(self, eng, res):
        self.counts[res[0]] = self.counts.get(res[0], 0) + 1
        if res[0] != "ok":
            self.record(eng, res, Z.BoolVal(True), "compilation raised %s" % (res[1:],))
        else:
            ref, b, c = res[1], res[2], res[3]
            if ref != b or ref != c:
                which = "fast" if ref != b else "incremental"
                self.record(eng, res, Z.BoolVal(True), "%s compilation differs from the reference compilation" % which)
            # the reference itself against the definition: every world verifying / falsifying cond k appears once
            msg = self.check_reference(eng, ref)
            if msg:
                self.record(eng, res, msg[0], msg[1])
        self.sample(eng, res)

    def check_reference(self, eng, ref):
        return None

    def replay(self, cand):
        vars_ = cand["vars"]
        tt.set_universe(self.N)
        ranks = {world_str(w, self.N): vars_["R%d" % w] for w in range(CTX.W)}
        job = {"atoms": list(CTX.atom_names), "steps": [{"op": "exec", "src": _CSRC, "ranks": ranks, "conds": self.desc_trees(vars_), "script": self.script}]}
        out = concretise.run_real(job)
        rec = dict(harness=self.label, tables=vars_, job=job, real=out, symbolic_result=cand["res"])
        if "steps" not in out:
            return "error", rec
        st = out["steps"][0]
        rec["observed"] = st
        rec["expected"] = "reference, fast and incremental compilations agree"
        if "exc" in st:
            return "confirmed", rec
        a, b, c = st["ok"]
        return ("confirmed" if (a != b or a != c) else "not_reproduced"), rec


_CSRC = '''
from inference.preocf import PreOCF
from inference.conditional import Conditional
import inference.c_revision as cr
from inference.c_revision_model import CRevisionModel
ocf = PreOCF.init_custom(dict(st["ranks"]), signature=job["atoms"])
cs = []
for k, c, a in st["conds"]:
    cd = Conditional(form(c), form(a), "c%d" % k); cd.index = k; cs.append(cd)
def norm(comp):
    return [{str(k): sorted([[int(t[0]), sorted(t[1]), sorted(t[2])] for t in lst], key=repr) for k, lst in d.items()} for d in comp]
if st["script"] is None:
    result = [norm(cr.compile_alt(ocf, cs)), norm(cr.compile_alt_fast(ocf, cs)), norm(CRevisionModel(ocf, cs).to_compilation())]
else:
    m = CRevisionModel(ocf, []); present = []
    for op, i in st["script"]:
        if op == "compile":
            m.to_compilation()
        elif op == "add":
            m.add_conditional(cs[i - 1]); present.append(i)
        else:
            m.remove_conditional(i)
            if i in present: present.remove(i)
    cur = [cs[i - 1] for i in sorted(present)]
    result = [norm(cr.compile_alt(ocf, cur)), norm(CRevisionModel(ocf, cur).to_compilation()), norm(m.to_compilation())]
'''


class ReviseHarness(_CRevBase):
    """c_revision(prior, conditionals, gamma_plus_zero, fixed maps): result properties."""

    def __init__(self, N, conds, gamma_plus_zero=True, fixed_minus=None, fixed_plus=None, use_model=False, label=None):
        ops.setup()
        self.setup_inputs(N, conds)
        self.gpz, self.fm, self.fp, self.use_model = gamma_plus_zero, fixed_minus or {}, fixed_plus or {}, use_model
        self.gm = [Z.Int("xgm%d" % i) for i in range(self.M)]
        self.gp = [Z.Int("xgp%d" % i) for i in range(self.M)]
        self.label = label or "c_revision N=%d conds=%s gamma+=0:%s fixed-=%s fixed+=%s%s" % (
            N, [d if d[0] == "opaque" else "(%s|%s)" % (d[1], d[2]) for d in conds], gamma_plus_zero, self.fm, self.fp, " incremental-model" if use_model else "")
        self.reset()

    def run(self, eng):
        import inference.c_revision as cr
        import inference.c_revision_model as crm
        eng.notes["convert_constants"] = True
        try:
            ocf, conds = self.make()
            model = crm.CRevisionModel(ocf, conds) if self.use_model else None
            r = cr.c_revision(ocf, conds, gamma_plus_zero=self.gpz, fixed_gamma_minus=dict(self.fm) or None,
                              fixed_gamma_plus=dict(self.fp) or None, model=model)
            if r is None:
                return ("none",)
            return ("ok", {str(k): v for k, v in r.items()})
        except Exception as e:  # noqa: BLE001
            if isinstance(e, symex.Inconclusive):
                raise
            return ("exc", type(e).__name__, str(e)[:200])

    # revised ranking and acceptance under given gamma vectors (z3 terms)
    def kstar(self, gm, gp, w):
        r = self.R[w]
        for i in range(self.M):
            ver = zb(tt.t_bit(tt.t_and(self.A[i], self.B[i]), w))
            fal = zb(tt.t_bit(tt.t_and(self.A[i], tt.t_not(self.B[i])), w))
            r = r + Z.If(ver, gp[i], 0) + Z.If(fal, gm[i], 0)
        return r

    def accepts_all(self, gm, gp):
        ks = [self.kstar(gm, gp, w) for w in range(CTX.W)]
        big = Z.IntVal(10 ** 6)
        cs = []
        for i in range(self.M):
            v, f = tt.t_and(self.A[i], self.B[i]), tt.t_and(self.A[i], tt.t_not(self.B[i]))
            mv, mf = big, big
            for w in range(CTX.W):
                mv = Z.If(Z.And(zb(tt.t_bit(v, w)), ks[w] < mv), ks[w], mv)
                mf = Z.If(Z.And(zb(tt.t_bit(f, w)), ks[w] < mf), ks[w], mf)
            cs.append(Z.And(bv(v) != bv(0), Z.Or(bv(f) == bv(0), mv < mf)))
        return Z.And(*cs) if cs else Z.BoolVal(True)

    def admissible(self, gm, gp):
        cs = [g >= 0 for g in gm] + [g >= 0 for g in gp]
        for i in range(self.M):
            if (i + 1) in self.fm:
                cs.append(gm[i] == int(self.fm[i + 1]))
            if (i + 1) in self.fp:
                cs.append(gp[i] == int(self.fp[i + 1]))
            elif self.gpz:
                cs.append(gp[i] == 0)
        return Z.And(*cs)

    def checks(self, res):
        if res[0] in ("exc", "limit"):
            return [(Z.BoolVal(True), "c_revision raised / did not terminate: %s" % (res[1:],))]
        if res[0] == "none":
            return [(Z.And(self.admissible(self.gm, self.gp), self.accepts_all(self.gm, self.gp)),
                     "c_revision returned nothing although admissible parameters exist")]
        d = res[1]
        gm, gp = [], []
        for i in range(self.M):
            a, b = d.get("gamma-_%d" % (i + 1)), d.get("gamma+_%d" % (i + 1), 0)
            if not isinstance(a, int) or not isinstance(b, int):
                return [(Z.BoolVal(True), "parameters of conditional %d missing / not integers: %s" % (i + 1, d))]
            gm.append(a)
            gp.append(b)
        if any(x < 0 for x in gm + gp):
            return [(Z.BoolVal(True), "negative parameter in %s" % d)]
        for k, v in self.fm.items():
            if gm[k - 1] != int(v):
                return [(Z.BoolVal(True), "fixed gamma-_%d=%s not respected: %s" % (k, v, d))]
        for k, v in self.fp.items():
            if gp[k - 1] != int(v):
                return [(Z.BoolVal(True), "fixed gamma+_%d=%s not respected: %s" % (k, v, d))]
        gmz, gpz = [Z.IntVal(x) for x in gm], [Z.IntVal(x) for x in gp]
        out = [(Z.Not(self.accepts_all(gmz, gpz)), "the revised ranking with %s does not accept every revision conditional" % d)]
        if self.gpz and not self.fp:
            free = [i for i in range(self.M) if (i + 1) not in self.fm]
            if free:
                le = Z.And(*[self.gm[i] <= gm[i] for i in free])
                lt_ = Z.Or(*[self.gm[i] < gm[i] for i in free])
                out.append((Z.And(self.admissible(self.gm, self.gp), self.accepts_all(self.gm, self.gp), le, lt_),
                            "gamma- vector %s is not Pareto-minimal" % gm))
        return out

    KNOWN = ("C19-fixed-gamma-not-bound-in-minima",
             "c_revision with fixed_gamma_minus / fixed_gamma_plus: the fixed value replaces the parameter only in its own conditional's constraint, the other conditionals' minima keep the free symbol, so the returned parameters need not make the revised ranking accept the conditionals (e.g. all-zero prior over {a,b}, [(a|b),(b|!a)], fixed_gamma_minus={1: 2} -> gamma-_2 = 0)")
    known_active = False

    def known_preds(self):
        return [(self.KNOWN[0], self.KNOWN[1], None)] if self.known_active and (self.fm or self.fp) else []

    def on_path(self, eng, res):
        self.counts[res[0]] = self.counts.get(res[0], 0) + 1
        for cond, msg in self.checks(res):
            if eng.vc(cond) is not None:
                if self.known_active and (self.fm or self.fp) and msg.startswith("the revised ranking with"):
                    k = "known:" + self.KNOWN[0]
                    self.witness[k] = self.witness.get(k, 0) + 1
                else:
                    self.record(eng, res, cond, msg)
                break
        self.sample(eng, res)

    def replay(self, cand):
        vars_ = cand["vars"]
        tt.set_universe(self.N)
        ranks = {world_str(w, self.N): vars_["R%d" % w] for w in range(CTX.W)}
        job = {"atoms": list(CTX.atom_names), "steps": [{"op": "exec", "src": _RSRC, "ranks": ranks, "conds": self.desc_trees(vars_), "gpz": self.gpz,
                                                          "fm": {str(k): v for k, v in self.fm.items()}, "fp": {str(k): v for k, v in self.fp.items()}, "use_model": self.use_model}]}
        out = concretise.run_real(job, timeout=90)
        rec = dict(harness=self.label, tables=vars_, job=job, real=out, symbolic_result=cand["res"])
        if "timeout" in out:
            res = ("limit",)
        elif "steps" not in out:
            return "error", rec
        else:
            st = out["steps"][0]
            res = ("exc",) + tuple(st["exc"]) if "exc" in st else (("none",) if st["ok"] is None else ("ok", st["ok"]))
        rec["observed"] = _plain(res)
        s = Z.Solver()
        for v in self.vars:
            s.add(v == vars_[str(v)])
        bad = None
        for cond, msg in self.checks(res):
            s.push()
            s.add(cond)
            if s.check() == Z.sat:
                bad = msg
            s.pop()
            if bad:
                break
        rec["expected"] = "admissible parameters whose revised ranking accepts all revision conditionals (Pareto-minimal gamma- when gamma+ = 0); None only if none exist"
        rec["assertion"] = bad
        return ("confirmed" if bad else "not_reproduced"), rec


_RSRC = '''
from inference.preocf import PreOCF
from inference.conditional import Conditional
import inference.c_revision as cr
from inference.c_revision_model import CRevisionModel
ocf = PreOCF.init_custom(dict(st["ranks"]), signature=job["atoms"])
cs = []
for k, c, a in st["conds"]:
    cd = Conditional(form(c), form(a), "c%d" % k); cd.index = k; cs.append(cd)
fm = {int(k): v for k, v in st["fm"].items()} or None
fp = {int(k): v for k, v in st["fp"].items()} or None
result = cr.c_revision(ocf, cs, gamma_plus_zero=st["gpz"], fixed_gamma_minus=fm, fixed_gamma_plus=fp, model=(CRevisionModel(ocf, cs) if st["use_model"] else None))
'''
