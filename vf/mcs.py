"""C15 part 2: the real `OptimizerRC2.minimal_correction_subsets` (with get_violated_conditional,
exclude_violated, remove_supersets) on the RC2 stand-in, against the specification
'exactly the inclusion-minimal members of { falsified set of w : w |= hard }, each once,
nothing when the hard clauses are unsatisfiable' - for every optimal-model choice."""
from __future__ import annotations

import itertools

from .rz3 import Z
from . import symex, ops, specs, tt, concretise
from .tt import CTX
from .specs import bv, zb


class McsHarness(symex.Harness):
    def __init__(self, N, K, ignore=(), shapes=None, engine="rc2"):
        ops.setup()
        self.N, self.M, self.K = N, K, K
        self.ignore = list(ignore)
        self.engine = engine
        self.sb = ops.SymBase(N, K, 1, shapes)
        A, B, QA, QB = self.sb.tables()
        self.A, self.B = A, B
        self.H = tt.t_and(QA[0], QB[0])
        self.label = "minimal_correction_subsets N=%d soft-groups=%d ignore=%s engine=%s%s" % (
            N, K, self.ignore, engine, (" shapes=" + ops.shape_name(shapes)) if shapes else "")
        self.reset()

    def reset(self):
        self.counts = {"ok": 0, "exc": 0, "limit": 0}
        self.viol, self.samples, self.witness = [], [], {}

    def collect(self):
        return dict(counts=self.counts, viol=self.viol, samples=self.samples, witness=self.witness, entered=sorted(ops.ENTERED))

    def merge(self, s):
        for k, v in s["counts"].items():
            self.counts[k] += v
        self.viol.extend(s["viol"])
        self.samples.extend(s["samples"])
        for k, v in s["witness"].items():
            self.witness[k] = self.witness.get(k, 0) + v
        ops.ENTERED.update(s["entered"])

    def mk_engine(self):
        tt.set_universe(self.N)
        return symex.Engine(max_decisions=4000)

    def run(self, eng):
        R = ops.R
        from pysat.formula import WCNF
        import inference.tseitin_transformation as ttm
        conds = {}
        for pos in range(self.K):
            conds[pos + 1] = R["Conditional"](self.sb.side("B", pos), self.sb.side("A", pos), "c%d" % (pos + 1))
        bb = R["BeliefBase"](list(CTX.atom_names), conds, "sym")
        es = R["im"].create_epistemic_state(bb, "system-w", "z3", self.engine, False)
        try:
            T = ttm.TseitinTransformation(es)
            T.belief_base_to_cnf(False, True, True)
            q = R["Conditional"](self.sb.side("QB", 0), self.sb.side("QA", 0), "hard")
            hard = T.query_to_cnf(q)[0]
            wcnf = WCNF()
            for c in hard:
                wcnf.append(c)
            for i, cnf in es["nf_cnf_dict"].items():
                if i not in self.ignore:
                    for c in cnf:
                        wcnf.append(c, weight=1)
            opt = R["om"].create_optimizer(es)
            res = opt.minimal_correction_subsets(wcnf, ignore=list(self.ignore))
            return ("ok", [sorted(int(x) for x in s) for s in res])
        except Exception as e:  # noqa: BLE001
            if isinstance(e, symex.Inconclusive):
                raise
            return ("exc", type(e).__name__, str(e)[:200])

    def good(self, res):
        if res[0] != "ok":
            return Z.BoolVal(False)
        idxs = [i for i in range(1, self.K + 1) if i not in self.ignore]
        out = res[1]
        fal = {i: tt.t_and(self.A[i - 1], tt.t_not(self.B[i - 1])) for i in idxs}

        def feasible(S):
            ws = []
            for w in range(CTX.W):
                parts = [zb(tt.t_bit(self.H, w))]
                for i in idxs:
                    b = zb(tt.t_bit(fal[i], w))
                    parts.append(b if i in S else Z.Not(b))
                ws.append(Z.And(*parts))
            return Z.Or(*ws)
        subsets = [frozenset(S) for k in range(len(idxs) + 1) for S in itertools.combinations(idxs, k)]
        feas = {S: feasible(S) for S in subsets}

        def minimal(S):
            return Z.And(feas[S], *[Z.Not(feas[T]) for T in subsets if T < S])
        got = [frozenset(s) for s in out]
        if len(set(got)) != len(got):
            return Z.BoolVal(False)                      # each exactly once
        if any(not s <= set(idxs) for s in got):
            return Z.BoolVal(False)
        cs = [minimal(S) if S in got else Z.Not(minimal(S)) for S in subsets]
        return Z.And(*cs)

    def on_path(self, eng, res):
        self.counts[res[0]] += 1
        m = eng.vc(Z.Not(self.good(res)))
        if m is not None and len(self.viol) < 60:
            for mm in eng.models(Z.Not(self.good(res)), self.sb.vars, 8):
                self.viol.append(dict(res=list(res), vars={str(v): concretise.model_int(mm, v) for v in self.sb.vars}))
        if res[0] == "ok":
            k = "returned_%d_sets" % len(res[1])
            self.witness[k] = self.witness.get(k, 0) + 1
        if len(self.samples) < 2:
            ms = eng.vc(Z.BoolVal(True))
            if ms is not None:
                self.samples.append(dict(config=self.label, result=list(res), tables={str(v): concretise.model_int(ms, v) for v in self.sb.vars}))

    def replay_variants(self):
        return ["rc2-g4", "rc2-cd", "rc2-m22", "rc2-mgh", "rc2-mc", "rc2-mcb", "rc2-gc3", "rc2-gc4", "rc2-mpl", "rc2-mcm", "rc2-g42", "rc2-cd15", "rc2-cd19", "rc2-mep", "rc2-mg3"]

    def replay_steps(self, cand, variant=None):
        vars_ = cand["vars"]
        tt.set_universe(self.N)
        lv = ops.leafval_of(vars_)
        base = []
        for pos in range(self.K):
            c = concretise.formula_tree(self.sb.side("B", pos), lv)
            a = concretise.formula_tree(self.sb.side("A", pos), lv)
            base.append([pos + 1, c, a, "(%s|%s)" % (concretise.tree_to_text(c), concretise.tree_to_text(a))])
        hc = concretise.formula_tree(self.sb.side("QB", 0), lv)
        ha = concretise.formula_tree(self.sb.side("QA", 0), lv)
        return [{"op": "exec", "src": _SRC, "base": base, "hc": hc, "ha": ha, "ignore": self.ignore,
                 "engine": variant or self.engine}]

    def replay_judge(self, cand, variant, results, steps):
        vars_ = cand["vars"]
        st = results[0]
        rec = dict(harness=self.label, tables=vars_, job={"atoms": list(CTX.atom_names), "steps": steps}, real={"steps": results},
                   symbolic_result=cand["res"], engine=variant or self.engine)
        if "exc" in st:
            rec["observed"] = ["exc"] + list(st["exc"])
            # an engine that cannot run RC2 at all is not a usable engine
            return "error", rec
        res = ("ok", st["ok"])
        rec["observed"] = list(res)
        s = Z.Solver()
        for v in self.sb.vars:
            s.add(v == vars_[str(v)])
        s.add(Z.Not(self.good(res)))
        rec["expected"] = "exactly the inclusion-minimal falsification sets over the models of the hard clauses"
        return ("confirmed" if s.check() == Z.sat else "not_reproduced"), rec

    def replay(self, cand):
        steps = self.replay_steps(cand, cand.get("variant"))
        out = concretise.run_real({"atoms": list(CTX.atom_names), "steps": steps})
        if "steps" not in out:
            return "error", dict(harness=self.label, tables=cand["vars"], real=out)
        return self.replay_judge(cand, cand.get("variant"), out["steps"], steps)


_SRC = '''
from pysat.formula import WCNF
from inference.belief_base import BeliefBase
from inference.conditional import Conditional
from inference.inference_manager import create_epistemic_state
from inference.tseitin_transformation import TseitinTransformation
from inference.optimizer import create_optimizer
bb = BeliefBase(job["atoms"], conds(st["base"]), "replay")
es = create_epistemic_state(bb, "system-w", "z3", st["engine"], False)
T = TseitinTransformation(es); T.belief_base_to_cnf(False, True, True)
hard = T.query_to_cnf(Conditional(form(st["hc"]), form(st["ha"]), "hard"))[0]
w = WCNF()
for c in hard: w.append(c)
for i, cnf in es["nf_cnf_dict"].items():
    if i not in st["ignore"]:
        for c in cnf: w.append(c, weight=1)
result = [sorted(int(x) for x in s) for s in create_optimizer(es).minimal_correction_subsets(w, ignore=list(st["ignore"]))]
'''
