#!/venv/bin/python
"""C15 part 1 - translation validation of the CNFs the repository produces with the genuine
z3 `tseitin-cnf` tactic (runs on the REAL stack; separate process, no stand-ins).

For every conditional (B|A) with A, B from a closed set of formula shapes over the atoms
{a,b,c} and the constants Top/Bottom, the real `belief_base_to_cnf` / `query_to_cnf` are
run and, per produced clause set C and intended formula phi (verification A&B,
falsification A&!B, non-falsification !A|B), two solver queries are discharged:
   (1)  C /\\ not phi            unsat   (every model of C restricted to the atoms models phi)
   (2)  phi /\\ forall aux. not C unsat   (every model of phi extends to a model of C)
where `aux` are all SAT variables that are not atoms (Tseitin auxiliaries, and whatever
else the id pool contains - e.g. z3 constants).  The solver quantifies over all
assignments; the formula set is enumerated completely.

Output: JSON on stdout.
"""
import itertools
import json
import os
import sys
import time
import warnings

os.environ.setdefault("INFOCF_LOGLEVEL", "ERROR")
REPO = os.environ.get("VF_REPO", "/repo")
sys.path.insert(0, REPO)
warnings.filterwarnings("ignore")


def main():
    depth = int(sys.argv[1]) if len(sys.argv) > 1 else 2
    natoms = int(sys.argv[2]) if len(sys.argv) > 2 else 2
    quick = "--quick" in sys.argv
    import infocf  # noqa: F401
    import z3
    from pysmt.shortcuts import Symbol, And, Or, Not, TRUE, FALSE, Solver
    from inference.conditional import Conditional
    from inference.belief_base import BeliefBase
    from inference.inference_manager import create_epistemic_state
    from inference.tseitin_transformation import TseitinTransformation

    names = ["a", "b", "c"][:natoms]
    atoms = [Symbol(n) for n in names]
    leaves = []
    for x in atoms:
        leaves += [x, Not(x)]
    leaves += [TRUE(), FALSE()]
    forms = list(leaves)
    if depth >= 2:
        for x, y in itertools.product(leaves, leaves):
            forms.append(And(x, y))
            forms.append(Or(x, y))
        a, b = atoms[0], atoms[1]
        forms += [Not(And(a, b)), Not(Or(a, b)), And(Or(a, b), Not(And(a, b))), Or(And(a, b), And(Not(a), Not(b))),
                  Not(TRUE()), Not(FALSE()), And(a, Or(b, TRUE())), Or(a, And(b, FALSE())), Not(Not(a)),
                  And(Or(a, Not(a)), b), Or(And(a, Not(a)), b), And(a, b, Not(a)), Or(a, b, Not(a))]
    if depth >= 3:
        extra = []
        base = forms[len(leaves):len(leaves) + 24]
        for x, y in itertools.product(base, leaves):
            extra.append(And(x, y))
            extra.append(Or(x, y))
            extra.append(Not(And(x, y)))
        forms += extra
    # dedupe (pysmt hash-conses)
    seen, uniq = set(), []
    for f in forms:
        if f not in seen:
            seen.add(f)
            uniq.append(f)
    forms = uniq
    conds = {}
    k = 0
    small = set(leaves) | set(forms[-13:]) if depth >= 2 else set(forms)
    for A in forms:
        for B in forms:
            if quick and A not in small and B not in small:
                continue            # quick tier: at least one side from the small set (leaves + special forms)
            k += 1
            conds[k] = Conditional(B, A, "(%s|%s)" % (B.serialize(), A.serialize()))
    bb = BeliefBase(names, conds, "tv")
    es = create_epistemic_state(bb, "system-w", "z3", "rc2", False)
    t0 = time.time()
    T = TseitinTransformation(es)
    T.belief_base_to_cnf(True, True, True)
    t_tseitin = time.time() - t0
    pool = es["pool"]
    with Solver(name="z3") as s:
        conv = s.converter
    zat = {n: z3.Bool(n) for n in names}

    def tv(cnf, phi):
        ids = sorted({abs(l) for c in cnf for l in c})
        var = {}
        for i in ids:
            o = pool.id2obj.get(i)
            if isinstance(o, z3.ExprRef) and z3.is_const(o) and o.decl().kind() == z3.Z3_OP_UNINTERPRETED and o.decl().name() in zat:
                var[i] = zat[o.decl().name()]
            else:
                var[i] = z3.Bool("aux%d" % i)
        aux = [v for v in var.values() if str(v).startswith("aux")]
        C = z3.And([z3.Or([var[abs(l)] if l > 0 else z3.Not(var[abs(l)]) for l in c]) if c else z3.BoolVal(False) for c in cnf] + [z3.BoolVal(True)])
        s1 = z3.Solver()
        s1.add(C, z3.Not(phi))
        r1 = s1.check()
        if r1 != z3.unsat:
            m = s1.model()
            return "cnf-admits-nonmodel", {n: z3.is_true(m.eval(v, model_completion=True)) for n, v in zat.items()}
        s2 = z3.Solver()
        s2.add(phi, z3.ForAll(aux, z3.Not(C)) if aux else z3.Not(C))
        r2 = s2.check()
        if r2 != z3.unsat:
            if r2 == z3.unknown:
                return "unknown", {}
            m = s2.model()
            return "model-not-extendable", {n: z3.is_true(m.eval(v, model_completion=True)) for n, v in zat.items()}
        return None

    t0 = time.time()
    n = 0
    bad = []
    nbad = 0
    samples = []
    for k, c in conds.items():
        A = conv.convert(c.antecedence)
        B = conv.convert(c.consequence)
        for nm, phi in (("v_cnf_dict", z3.And(A, B)), ("f_cnf_dict", z3.And(A, z3.Not(B))), ("nf_cnf_dict", z3.Or(z3.Not(A), B))):
            n += 1
            r = tv(es[nm][k], phi)
            if len(samples) < 4 and k % 997 == 1:
                samples.append(dict(conditional=str(c), kind=nm, cnf=es[nm][k]))
            if r:
                nbad += 1
                if len(bad) < 12:
                    bad.append(dict(conditional=str(c), kind=nm, cnf=es[nm][k], why=r[0], assignment=r[1],
                                    pool={str(i): str(pool.id2obj.get(i)) for i in sorted({abs(l) for cl in es[nm][k] for l in cl})}))
    # query_to_cnf on a subset (same code path through goal2intcnf, separate entry point)
    nq = 0
    for k in list(conds)[::37]:
        c = conds[k]
        AB, AnB = T.query_to_cnf(c)
        A = conv.convert(c.antecedence)
        B = conv.convert(c.consequence)
        for nm, cnf, phi in (("query_v", AB, z3.And(A, B)), ("query_f", AnB, z3.And(A, z3.Not(B)))):
            nq += 1
            r = tv(cnf, phi)
            if r:
                nbad += 1
                if len(bad) < 12:
                    bad.append(dict(conditional=str(c), kind=nm, cnf=cnf, why=r[0], assignment=r[1]))
    json.dump(dict(formulas=len(forms), conditionals=len(conds), cnfs=n + nq, solver_queries=2 * (n + nq), unfaithful=nbad,
                   examples=bad, samples=samples, tseitin_s=round(t_tseitin, 2), tv_s=round(time.time() - t0, 2)), sys.stdout)


if __name__ == "__main__":
    main()
