"""vf - solver-based checking of the real InfOCF code (see /verif/DESIGN.md).

Import order matters: `vf.rz3` grabs the genuine z3 module before `vf.fakes.install()` puts
stand-ins for pysmt / z3 / pysat.examples.rc2 into sys.modules; only then may the
repository's modules be imported in the checking process.
"""
