"""Specification library (DESIGN.md 2.3): z3 encodings of the textbook definitions,
expanded over the 2^N worlds of the current universe.  Written from the property
statements and the cited papers, never from the implementation.

All tables are ints (concrete) or z3 BitVecs of width W.  Every function returns z3 terms.
"""
from __future__ import annotations

from .rz3 import Z
from . import tt
from .tt import CTX, t_and, t_or, t_not, t_bit, t_nonzero


def zb(x):
    return Z.BoolVal(x) if isinstance(x, bool) else x


def zand(xs):
    xs = [zb(x) for x in xs]
    if not xs:
        return Z.BoolVal(True)
    return xs[0] if len(xs) == 1 else Z.And(*xs)


def zor(xs):
    xs = [zb(x) for x in xs]
    if not xs:
        return Z.BoolVal(False)
    return xs[0] if len(xs) == 1 else Z.Or(*xs)


def bv(x):
    return tt._lift(x)


RW = 8          # width of layer indices / ranks (values stay far below 2^8)
KW = 20         # width of lexicographic keys


def iv(n, w=RW):
    return Z.BitVecVal(n, w)


def lt(a, b):
    return Z.ULT(a, b)


def gt(a, b):
    return Z.UGT(a, b)


def tab_if(c, a, b):
    return Z.If(zb(c), bv(a), bv(b))


class BaseSpec:
    """Tolerance partition (extended algorithm) and derived notions for the base
    {(B_i|A_i)}.  In strict mode use `.consistent`; in extended mode `.weakly_consistent`,
    `.FEAS` (table of feasible worlds) and `.inf[i]` (conditional i is in the infinity layer).
    """

    def __init__(self, A, B):
        self.A, self.B = list(A), list(B)
        M = self.M = len(self.A)
        W = CTX.W
        self.ver = [t_and(a, b) for a, b in zip(self.A, self.B)]
        self.fal = [t_and(a, t_not(b)) for a, b in zip(self.A, self.B)]
        self.mat = [t_or(t_not(a), b) for a, b in zip(self.A, self.B)]
        placed = [Z.BoolVal(False)] * M
        layer = [iv(255)] * M
        nonempty = []
        for L in range(M):
            know = bv(CTX.FULLI)
            for j in range(M):
                know = know & tab_if(placed[j], CTX.FULLI, self.mat[j])
            tol = [Z.And(Z.Not(placed[i]), (know & bv(self.ver[i])) != bv(0)) for i in range(M)]
            nonempty.append(zor(tol))
            layer = [Z.If(tol[i], iv(L), layer[i]) for i in range(M)]
            placed = [Z.Or(placed[i], tol[i]) for i in range(M)]
        self.placed, self.layer = placed, layer
        self.inf = [Z.Not(p) for p in placed]
        self.consistent = zand(placed) if M else Z.BoolVal(True)
        feas = bv(CTX.FULLI)
        for i in range(M):
            feas = feas & tab_if(placed[i], CTX.FULLI, self.mat[i])
        self.FEAS = feas
        self.weakly_consistent = feas != bv(0)
        self.nlayers = sum([Z.If(ne, iv(1), iv(0)) for ne in nonempty], iv(0))
        self.falsw = [[zb(t_bit(self.fal[i], w)) for w in range(W)] for i in range(M)]
        self._rank = {}

    # -- universe handling ---------------------------------------------------------------
    def universe(self, weakly):
        """Table of worlds that count: everything (strict) or the feasible worlds."""
        return self.FEAS if weakly else bv(CTX.FULLI)

    def accepted_base(self, weakly):
        return self.weakly_consistent if weakly else self.consistent

    def active(self, i, weakly):
        """Conditional i takes part in ranking / preference (finite layers only)."""
        return self.placed[i]

    # -- System Z ------------------------------------------------------------------------
    def kz(self, w):
        """Z-rank of world w w.r.t. the finite layers (Int term)."""
        if w not in self._rank:
            r = iv(0)
            for i in range(self.M):
                r = Z.If(Z.And(self.placed[i], self.falsw[i][w], gt(self.layer[i] + 1, r)), self.layer[i] + 1, r)
            self._rank[w] = r
        return self._rank[w]

    def INF(self):
        return self.M + 5

    def formula_rank(self, tab, U):
        r = iv(self.INF())
        tab = bv(tab) & bv(U)
        for w in range(CTX.W):
            r = Z.If(Z.And(zb(t_bit(tab, w)), lt(self.kz(w), r)), self.kz(w), r)
        return r

    def spec_z(self, QA, QB, weakly=False):
        U = self.universe(weakly)
        fq = bv(t_and(QA, t_not(QB))) & bv(U)
        vq = bv(t_and(QA, QB)) & bv(U)
        return Z.Or(fq == bv(0), lt(self.formula_rank(vq, CTX.FULLI), self.formula_rank(fq, CTX.FULLI)))

    # -- System W ------------------------------------------------------------------------
    def less_w(self, w, v):
        """w <_w v: going from the highest layer downwards the sets of falsified
        conditionals agree until a layer where w's set is a proper subset of v's."""
        M = self.M
        alts = []
        for L in range(M):
            eq_above = zand([Z.Implies(Z.And(self.placed[i], gt(self.layer[i], iv(L))), self.falsw[i][w] == self.falsw[i][v]) for i in range(M)])
            sub = zand([Z.Implies(Z.And(self.placed[i], self.layer[i] == iv(L)), Z.Implies(self.falsw[i][w], self.falsw[i][v])) for i in range(M)])
            strict = zor([Z.And(self.placed[i], self.layer[i] == iv(L), Z.Not(self.falsw[i][w]), self.falsw[i][v]) for i in range(M)])
            alts.append(Z.And(eq_above, sub, strict))
        return zor(alts)

    def spec_w(self, QA, QB, weakly=False):
        U = self.universe(weakly)
        fq = bv(t_and(QA, t_not(QB))) & bv(U)
        vq = bv(t_and(QA, QB)) & bv(U)
        W = CTX.W
        return zand([Z.Implies(zb(t_bit(fq, v)), zor([Z.And(zb(t_bit(vq, w)), self.less_w(w, v)) for w in range(W) if w != v]))
                     for v in range(W)])

    # -- lexicographic inference ---------------------------------------------------------
    def lexkey(self, w):
        """Integer whose order is the lexicographic order of the per-layer falsification
        count vectors (highest layer first): sum of (M+1)^layer over falsified finite
        conditionals.  Counts per layer are <= M, so base M+1 never carries."""
        M = self.M
        terms = []
        for i in range(M):
            p = iv(1, KW)
            for L in range(1, M):
                p = Z.If(self.layer[i] == iv(L), iv((M + 1) ** L, KW), p)
            terms.append(Z.If(Z.And(self.placed[i], self.falsw[i][w]), p, iv(0, KW)))
        assert (M + 1) ** M < 2 ** KW
        return sum(terms, iv(0, KW))

    def spec_lex(self, QA, QB, weakly=False):
        U = self.universe(weakly)
        fq = bv(t_and(QA, t_not(QB))) & bv(U)
        vq = bv(t_and(QA, QB)) & bv(U)
        W = CTX.W
        keys = [self.lexkey(w) for w in range(W)]
        ex = zor([Z.And(zb(t_bit(vq, w)), zand([Z.Implies(zb(t_bit(fq, v)), lt(keys[w], keys[v])) for v in range(W) if v != w]))
                  for w in range(W)])
        return Z.Or(fq == bv(0), ex)

    # -- p-entailment --------------------------------------------------------------------
    def spec_p(self, QA, QB, weakly=False):
        """D (restricted to feasible worlds and finite layers) together with (not B|A)
        admits no tolerance partition."""
        U = self.universe(weakly)
        M = self.M
        Ux = bv(U)
        ver = [bv(self.ver[i]) & Ux for i in range(M)] + [bv(t_and(QA, t_not(QB))) & Ux]
        mat = [bv(self.mat[i]) for i in range(M)] + [bv(t_or(t_not(QA), t_not(QB)))]
        # conditionals of the infinity layer are not part of the restricted base
        act = [self.placed[i] for i in range(M)] + [Z.BoolVal(True)]
        placed = [Z.Not(a) for a in act]
        for L in range(M + 1):
            know = Ux
            for j in range(M + 1):
                know = know & Z.If(placed[j], bv(CTX.FULLI), mat[j])
            tol = [Z.And(Z.Not(placed[i]), (know & ver[i]) != bv(0)) for i in range(M + 1)]
            placed = [Z.Or(placed[i], tol[i]) for i in range(M + 1)]
        return Z.Not(zand(placed))

    # -- ranking-model semantics (used by the sanity lemmas and by C16/C18) ---------------
    def accepts_rank(self, kappa, a, b, U=None):
        """kappa (list of W Int terms, INF() = infinite) accepts (b|a) within U."""
        INF = 250
        U = bv(CTX.FULLI if U is None else U)

        def fr(tab):
            r = iv(INF)
            tab = bv(tab) & U
            for w in range(CTX.W):
                r = Z.If(Z.And(zb(t_bit(tab, w)), lt(kappa[w], r)), kappa[w], r)
            return r
        v, f = fr(t_and(a, b)), fr(t_and(a, t_not(b)))
        return lt(v, f)

    # -- c-representations ---------------------------------------------------------------
    def kappa_c(self, eta, w):
        return Z.Sum([Z.If(self.falsw[i][w], eta[i], Z.IntVal(0)) for i in range(self.M)]) if self.M else Z.IntVal(0)

    def crep(self, eta, big=None):
        """eta (list of M Int terms) is the impact vector of a c-representation of the base:
        non-negative and kappa(A_i B_i) < kappa(A_i not B_i) for every conditional."""
        cs = [e >= 0 for e in eta]
        if big is not None:
            cs += [e <= big for e in eta]
        for i in range(self.M):
            cs.append(self.accepts_c(eta, self.A[i], self.B[i]))
        return zand(cs)

    def frank_c(self, eta, tab):
        """(exists, minimum) of kappa_eta over the models of tab."""
        tab = bv(tab)
        ks = [self.kappa_c(eta, w) for w in range(CTX.W)]
        big = Z.Sum([Z.If(e > 0, e, Z.IntVal(0)) for e in eta]) + 1 if eta else Z.IntVal(1)
        r = big
        for w in range(CTX.W):
            r = Z.If(Z.And(zb(t_bit(tab, w)), ks[w] < r), ks[w], r)
        return tab != bv(0), r

    def accepts_c(self, eta, a, b):
        ev, rv = self.frank_c(eta, t_and(a, b))
        ef, rf = self.frank_c(eta, t_and(a, t_not(b)))
        return Z.And(ev, Z.Or(Z.Not(ef), rv < rf))

    def query_accepted_c(self, eta, QA, QB):
        """k(AB) < k(A not B) with the conventions of C05 (A not B unsat => True)."""
        ev, rv = self.frank_c(eta, t_and(QA, QB))
        ef, rf = self.frank_c(eta, t_and(QA, t_not(QB)))
        return Z.Or(Z.Not(ef), Z.And(ev, rv < rf))


SPECS = {
    "p-entailment": "spec_p",
    "system-z": "spec_z",
    "system-w": "spec_w",
    "lex_inf": "spec_lex",
}


def spec_of(bs, system, QA, QB, weakly=False):
    return getattr(bs, SPECS[system])(QA, QB, weakly)
