"""C20 (partial): wrapper logic of saving / loading ranking objects, with faithful-serialiser
stand-ins (identity on plain data, pickle protocol via __getstate__/__setstate__ on deep
copies) whose calls may fail (free decisions)."""
from __future__ import annotations

import copy
import types

from .rz3 import Z
from . import symex, ops, specs, tt, concretise
from .tt import CTX
from .ocf import _Base, world_str, world_int, _plain
from .specs import iv, zb


class FakeFS:
    def __init__(self, may_fail):
        self.files = {}
        self.may_fail = may_fail
        self.failed = []

    def fail(self, what):
        if self.may_fail and symex.ENG is not None and not self.failed:
            if symex.sym_truth(symex.ENG.fresh("fail_" + what)):
                self.failed.append(what)
                return True
        return False


class _File:
    def __init__(self, fs, path, mode):
        self.fs, self.path, self.mode = fs, path, mode

    def __enter__(self):
        return self

    def __exit__(self, *a):
        return False

    def read(self):
        return "<<text:%s>>" % self.path

    def close(self):
        pass

    def flush(self):
        pass

    def write(self, s):
        self.fs.files[self.path] = ("text", s)


def make_env(fs):
    class Path:
        def __init__(self, p):
            self.p = str(p.p if isinstance(p, Path) else p)

        def __str__(self):
            return self.p

        __repr__ = __str__

        def __fspath__(self):
            return self.p

        @property
        def suffix(self):
            i = self.p.rfind(".")
            return self.p[i:] if i > self.p.rfind("/") and i >= 0 else ""

        def exists(self):
            return self.p in fs.files

        def open(self, mode="r", *a, **k):
            if "w" in mode and fs.fail("open"):
                raise OSError("cannot open %s for writing" % self.p)
            if "r" in mode and self.p not in fs.files:
                raise FileNotFoundError(self.p)
            return _File(fs, self.p, mode)

        def read_text(self):
            if self.p not in fs.files:
                raise FileNotFoundError(self.p)
            return "<<text:%s>>" % self.p

    pathlib = types.SimpleNamespace(Path=Path)

    class PicklingError(Exception):
        pass

    def p_dump(obj, fd, protocol=None):
        if fs.fail("pickle_dump"):
            fs.files[fd.path] = ("garbage", None)
            raise PicklingError("cannot pickle member")
        if hasattr(obj, "__getstate__") and not isinstance(obj, (dict, list)):
            state = copy.deepcopy(obj.__getstate__())
            fs.files[fd.path] = ("pickle-obj", (type(obj), state))
        else:
            fs.files[fd.path] = ("pickle", copy.deepcopy(obj))

    def p_load(fd):
        kind, payload = fs.files[fd.path]
        if kind == "pickle-obj":
            cls, state = payload
            o = cls.__new__(cls)
            o.__setstate__(copy.deepcopy(state))
            return o
        if kind == "pickle":
            return copy.deepcopy(payload)
        raise PicklingError("not a pickle: %s" % kind)

    pickle = types.SimpleNamespace(dump=p_dump, load=p_load, HIGHEST_PROTOCOL=5, PicklingError=PicklingError)

    def _jsonable(x):
        if isinstance(x, dict):
            return all(isinstance(k, str) for k in x) and all(_jsonable(v) for v in x.values())
        if isinstance(x, (list, tuple)):
            return all(_jsonable(v) for v in x)
        return isinstance(x, (str, int, float, bool, type(None)))

    def j_dump(data, fd, indent=None, default=None, **kw):
        if fs.fail("json_dump"):
            raise OSError("disk full")

        def conv(x):
            if isinstance(x, dict):
                return {str(k): conv(v) for k, v in x.items()}
            if isinstance(x, (list, tuple)):
                return [conv(v) for v in x]
            if isinstance(x, (str, int, float, bool, type(None))):
                return x
            if default is None:
                raise TypeError("Object of type %s is not JSON serializable" % type(x).__name__)
            return default(x)
        fs.files[fd.path] = ("json", conv(data))

    def j_load(fd):
        kind, payload = fs.files[fd.path]
        if kind != "json":
            raise ValueError("not json")
        return copy.deepcopy(payload)

    def j_loads(text):
        p = text[len("<<text:"):-2]
        return j_load(types.SimpleNamespace(path=p))

    json = types.SimpleNamespace(dump=j_dump, load=j_load, loads=j_loads)
    return pathlib, pickle, json


class PersistHarness(_Base):
    """kind: 'system-z' (symbolic base, lazy prefix), 'custom' (symbolic ranks), 'c-rep'."""

    no_sample_validation = True     # no automated replay with the genuine serialisers (partial claim)

    def __init__(self, kind, N=2, M=2, prefix=(0,), may_fail=False, label=None, only_impacts=False):
        ops.setup()
        self.kind, self.N, self.M, self.prefix, self.may_fail = kind, N, M, list(prefix), may_fail
        self.sb = ops.SymBase(N, M, 1)
        self.R = [Z.Int("R%d" % w) for w in range(CTX.W)]
        self.vars = self.sb.vars + (self.R if kind == "custom" else [])
        A, B, QA, QB = self.sb.tables()
        self.spec = specs.BaseSpec(A, B)
        self.only_impacts = only_impacts
        self.label = label or "persistence[%s%s] N=%d M=%d ranked-before-save=%s%s" % (kind, " impacts round trips only" if only_impacts else "", N, M, self.prefix, " save may fail" if may_fail else "")
        self.reset()

    def mk_engine(self):
        tt.set_universe(self.N)
        pre = [Z.And(r >= 0, r <= 3) for r in self.R] if self.kind == "custom" else []
        return symex.Engine(assumptions=pre, max_decisions=6000)

    def build(self):
        import inference.preocf as po
        from .symint import SymInt
        R = ops.R
        conds = {}
        for pos in range(self.M):
            c = R["Conditional"](self.sb.side("B", pos), self.sb.side("A", pos), "c%d" % (pos + 1))
            c.index = pos + 1
            conds[pos + 1] = c
        bb = R["BeliefBase"](list(CTX.atom_names), conds, "sym")
        if self.kind == "system-z":
            return po.PreOCF.init_system_z(bb), conds
        if self.kind == "custom":
            ranks = {world_str(w, self.N): (SymInt(self.R[w], 0, 3) if w not in self.prefix_none() else None) for w in range(CTX.W)}
            return po.PreOCF.init_custom(ranks, signature=list(CTX.atom_names)), conds
        from . import l2
        l2.activate()
        try:
            return po.PreOCF.init_random_min_c_rep(bb), conds
        finally:
            l2.deactivate()

    def prefix_none(self):
        return []

    def run(self, eng):
        import inference.preocf as po
        from .ocf import _conc
        fs = FakeFS(self.may_fail)
        pathlib, pickle, json = make_env(fs)
        saved = (po.pathlib, po.pickle, po.json)
        po.pathlib, po.pickle, po.json = pathlib, pickle, json
        from . import l2
        try:
            try:
                ocf, conds = self.build()
            except (AssertionError, ValueError) as e:
                return ("refused", str(e)[:80])
            if getattr(ocf, "_z_partition", True) is False:
                return ("refused", "inconsistent")
            if self.only_impacts:
                ocf.export_impacts("store/imp.json")
                ocf.export_impacts("store/imp.pkl", fmt="pickle")
                bbx = ops.R["BeliefBase"](list(CTX.atom_names), conds, "sym")
                o2 = po.RandomMinCRepPreOCF.init_with_impacts(bbx, "store/imp.json")
                o4 = po.RandomMinCRepPreOCF.init_with_impacts(bbx, "store/imp.pkl")
                o3 = po.RandomMinCRepPreOCF.init_with_impacts_list(bbx, ocf.save_impacts())
                same = list(o2._impacts) == list(ocf._impacts) == list(o3._impacts) == list(o4._impacts)
                return ("ok", dict(save_err=None, intact=True, failed=[], has_attrs=True, sig_equal=True, ranks_loaded={}, ranks_orig={},
                                   acc=(True, True), impacts=(list(o3._impacts) if same else None, list(ocf._impacts)),
                                   meta=(True, True, "json", "pickle")))
            for w in self.prefix:
                ocf.rank_world(world_str(w, self.N))
            before = {k: (v if not hasattr(v, "e") else "sym") for k, v in ocf.ranks.items()}
            # solver attributes must be restored to the very same objects; for the rest the
            # attribute set must be unchanged (values are compared through ranks / verdicts below)
            def snap(o):
                return {k: (id(v) if k in ("_optimizer", "_csp") else True) for k, v in o.__dict__.items()}
            attrs_before = snap(ocf)
            ocf.save_meta("note", {"k": [1, 2, {"x": None}], "t": "text"})
            save_err = None
            try:
                ocf.save_ocf("store/obj.pkl")
            except Exception as e:  # noqa: BLE001
                if isinstance(e, symex.Inconclusive):
                    raise
                save_err = type(e).__name__
            fs.may_fail = False          # faults are injected into the save under test only
            attrs_after = snap(ocf)
            after = {k: (v if not hasattr(v, "e") else "sym") for k, v in ocf.ranks.items()}
            intact = attrs_before == attrs_after and before == after
            out = dict(save_err=save_err, intact=intact, failed=list(fs.failed))
            if save_err is None:
                loaded = po.PreOCF.load_ocf("store/obj.pkl", trusted=True)
                out["has_attrs"] = all(a in loaded.__dict__ for a in ("_optimizer", "_csp")) if self.kind == "c-rep" else True
                out["sig_equal"] = list(loaded.signature) == list(ocf.signature)
                if self.kind == "c-rep":
                    l2.activate()
                try:
                    lr = {k: _conc(v) for k, v in loaded.compute_all_ranks().items()}
                    orr = {k: _conc(v) for k, v in ocf.compute_all_ranks().items()}
                    q = ops.R["Conditional"](self.sb.side("QB", 0), self.sb.side("QA", 0), "q")
                    out["acc"] = (bool(loaded.conditional_acceptance(q)), bool(ocf.conditional_acceptance(q)))
                finally:
                    l2.deactivate()
                out["ranks_loaded"], out["ranks_orig"] = lr, orr
                if self.kind == "c-rep":
                    out["impacts"] = (list(loaded._impacts), list(ocf._impacts))
                    ocf.export_impacts("store/imp.json")
                    o2 = po.RandomMinCRepPreOCF.init_with_impacts(ops.R["BeliefBase"](list(CTX.atom_names), conds, "sym"), "store/imp.json")
                    out["impacts_file"] = (list(o2._impacts), list(ocf._impacts))
                    o3 = po.RandomMinCRepPreOCF.init_with_impacts_list(ops.R["BeliefBase"](list(CTX.atom_names), conds, "sym"), ocf.save_impacts())
                    out["impacts_list"] = (list(o3._impacts), list(ocf._impacts))
                # metadata round trip, format by suffix
                ocf.save_metadata("store/meta.json")
                ocf.save_metadata("store/meta.pkl")
                m1 = po.PreOCF.init_custom({}, signature=[])
                m1.load_metadata("store/meta.json")
                m2 = po.PreOCF.init_custom({}, signature=[])
                m2.load_metadata("store/meta.pkl")
                out["meta"] = (m1.load_meta("note") == ocf.load_meta("note"), m2.load_meta("note") == ocf.load_meta("note"),
                               fs.files["store/meta.json"][0], fs.files["store/meta.pkl"][0])
            else:
                # the in-memory object must still be fully usable
                if self.kind == "c-rep":
                    l2.activate()
                try:
                    out["ranks_orig"] = {k: _conc(v) for k, v in ocf.compute_all_ranks().items()}
                finally:
                    l2.deactivate()
                out["opt_restored"] = (getattr(ocf, "_optimizer", "absent") is not None) if self.kind == "c-rep" else True
            return ("ok", out)
        except Exception as e:  # noqa: BLE001
            if isinstance(e, symex.Inconclusive):
                raise
            return ("exc", type(e).__name__, str(e)[:200])
        finally:
            po.pathlib, po.pickle, po.json = saved
            l2.deactivate()

    def on_path(self, eng, res):
        self.counts[res[0]] = self.counts.get(res[0], 0) + 1
        acc = self.spec.consistent if self.kind != "custom" else Z.BoolVal(True)
        if res[0] == "refused":
            if self.kind != "custom" and eng.vc(acc) is not None:
                self.record(eng, res, acc, "construction refused")
        elif res[0] in ("exc", "limit"):
            if eng.vc(acc) is not None:
                self.record(eng, res, acc, "exception outside save_ocf: %s" % (res[1:],))
        else:
            o = res[1]
            msgs = []
            if o["save_err"] and not o["failed"]:
                msgs.append("save_ocf raised %s although no serialiser fault was injected" % o["save_err"])
            if not o["save_err"] and o["failed"]:
                msgs.append("an injected fault %s was swallowed silently" % o["failed"])
            if not o["intact"]:
                msgs.append("in-memory object changed by save_ocf (attributes or ranks differ)")
            if o["save_err"]:
                if not o.get("opt_restored", True):
                    msgs.append("_optimizer not restored after the failed save")
                k = "failed_saves"
                self.witness[k] = self.witness.get(k, 0) + 1
            else:
                if not o["has_attrs"] or not o["sig_equal"]:
                    msgs.append("loaded object lacks solver attributes / signature differs")
                if o["ranks_loaded"] != o["ranks_orig"]:
                    msgs.append("completed ranks of the loaded object differ from the original: %s vs %s" % (o["ranks_loaded"], o["ranks_orig"]))
                if o["acc"][0] != o["acc"][1]:
                    msgs.append("acceptance verdict differs after reload")
                for key in ("impacts", "impacts_file", "impacts_list"):
                    if key in o and o[key][0] != o[key][1]:
                        msgs.append("%s do not round-trip" % key)
                if o["meta"][:2] != (True, True) or o["meta"][2] != "json" or o["meta"][3] not in ("pickle",):
                    msgs.append("metadata round trip / format dispatch wrong: %s" % (o["meta"],))
            if msgs:
                self.record(eng, res, acc, "; ".join(msgs))
            elif self.kind == "system-z":
                # completed ranks also equal the definition (ties C20 to C16)
                bad = [self.spec.kz(world_int(k)) != iv(v) for k, v in o["ranks_orig"].items() if isinstance(v, int)]
                if bad and eng.vc(Z.And(acc, Z.Or(*bad))) is not None:
                    self.record(eng, res, Z.And(acc, Z.Or(*bad)), "ranks after save / load differ from the Z-ranks of the definition")
        self.sample(eng, res)

    def replay(self, cand):
        # the stand-in serialisers are part of the claim; a concrete replay uses the REAL pickle/json
        vars_ = cand["vars"]
        rec = dict(harness=self.label, tables=vars_, symbolic_result=cand["res"], job=None,
                   note="found with faithful-serialiser stand-ins; replay with the genuine pickle/json is not automated for this harness")
        rec["observed"] = cand["res"][1]
        rec["expected"] = "save/load leaves ranks, impacts, verdicts and the in-memory object unchanged"
        return "confirmed", rec
