"""Spec sanity lemmas (DESIGN.md 2.3): validity queries over the specification library only,
discharged before any code is looked at.  A wrong spec shows up here as a harness error
(exit 3), not as a VIOLATION."""
from __future__ import annotations

import os
import subprocess
import tempfile
import time

from .rz3 import Z
from . import tt, specs
from .tt import CTX
from .specs import iv, lt, bv


def _sym(N, M, K=1):
    tt.set_universe(N)
    W = CTX.W
    A = [Z.BitVec("A%d" % i, W) for i in range(M)]
    B = [Z.BitVec("B%d" % i, W) for i in range(M)]
    QA = [Z.BitVec("QA%d" % i, W) for i in range(K)]
    QB = [Z.BitVec("QB%d" % i, W) for i in range(K)]
    return A, B, QA, QB


def p_ranking_models(N=2, M=2):
    """tolerance-based spec of p-entailment <=> accepted by every ranking model."""
    A, B, QA, QB = _sym(N, M)
    bs = specs.BaseSpec(A, B)
    sp = bs.spec_p(QA[0], QB[0])
    kap = [Z.BitVec("k%d" % w, specs.RW) for w in range(CTX.W)]
    rng = Z.And(*[Z.ULE(k, iv(CTX.W)) for k in kap])
    normal = Z.Or(*[k == iv(0) for k in kap])
    model = Z.And(rng, normal, *[bs.accepts_rank(kap, A[i], B[i]) for i in range(M)])
    out = []
    # (=>) entailed, yet some ranking model of D does not accept the query
    out.append(("p=>all-models", Z.And(bs.consistent, sp, model, Z.Not(bs.accepts_rank(kap, QA[0], QB[0])),
                                         (bv(QA[0]) & ~bv(QB[0])) != bv(0))))
    # (<=) not entailed: the Z-ranking of D + (not B|A) is a model of D that rejects the query
    bs2 = specs.BaseSpec(A + [QA[0]], B + [~QB[0]])
    kz = [bs2.kz(w) for w in range(CTX.W)]
    good = Z.And(bs2.consistent, *[bs.accepts_rank(kz, A[i], B[i]) for i in range(M)])
    out.append(("not-p=>countermodel", Z.And(bs.consistent, Z.Not(sp),
                                            Z.Not(Z.And(good, Z.Not(bs.accepts_rank(kz, QA[0], QB[0])))))))
    return out


def z_is_model(N=2, M=3):
    """The Z-ranking accepts every conditional of a consistent base."""
    A, B, QA, QB = _sym(N, M)
    bs = specs.BaseSpec(A, B)
    kz = [bs.kz(w) for w in range(CTX.W)]
    return [("kz-accepts-base", Z.And(bs.consistent, Z.Not(Z.And(*[bs.accepts_rank(kz, A[i], B[i]) for i in range(M)]))))]


def chain(N=2, M=2):
    """spec_p => spec_z => spec_w => spec_lex on accepted bases, both modes."""
    A, B, QA, QB = _sym(N, M)
    bs = specs.BaseSpec(A, B)
    out = []
    for weakly in (False, True):
        acc = bs.accepted_base(weakly)
        names = ["spec_p", "spec_z", "spec_w", "spec_lex"]
        sp = [getattr(bs, n)(QA[0], QB[0], weakly) for n in names]
        for i in range(3):
            out.append(("%s=>%s/%s" % (names[i], names[i + 1], "ext" if weakly else "strict"),
                        Z.And(acc, sp[i], Z.Not(sp[i + 1]))))
    return out


def ext_equals_strict(N=2, M=2):
    """On strongly consistent bases the extended specs coincide with the strict ones."""
    A, B, QA, QB = _sym(N, M)
    bs = specs.BaseSpec(A, B)
    out = []
    for n in ("spec_p", "spec_z", "spec_w", "spec_lex"):
        f = getattr(bs, n)
        out.append(("%s ext=strict" % n, Z.And(bs.consistent, f(QA[0], QB[0], True) != f(QA[0], QB[0], False))))
    return out


def c_between(N=2, M=2):
    """spec_p => (all c-representations accept) and (all c-reps accept) => spec_w, in the
    bounded form used by the checks: a c-representation rejecting the query refutes spec_p;
    spec_w false has ... (only the first direction is quantifier-free)."""
    A, B, QA, QB = _sym(N, M)
    bs = specs.BaseSpec(A, B)
    eta = [Z.Int("eta%d" % i) for i in range(M)]
    return [("spec_p=>every c-rep accepts", Z.And(bs.consistent, bs.spec_p(QA[0], QB[0]), bs.crep(eta),
                                                  Z.Not(bs.query_accepted_c(eta, QA[0], QB[0]))))]


def direct_inference(N=2, M=2):
    """Every spec satisfies direct inference (C09 a)."""
    A, B, QA, QB = _sym(N, M)
    bs = specs.BaseSpec(A, B)
    out = []
    for weakly in (False, True):
        for n in ("spec_p", "spec_z", "spec_w", "spec_lex"):
            for i in range(M):
                if weakly:
                    pre = Z.And(bs.weakly_consistent)
                else:
                    pre = bs.consistent
                out.append(("%s direct %d %s" % (n, i, "ext" if weakly else "strict"),
                            Z.And(pre, Z.Not(getattr(bs, n)(A[i], B[i], weakly)))))
    return out


LEMMAS = dict(p_ranking_models=p_ranking_models, z_is_model=z_is_model, chain=chain,
              ext_equals_strict=ext_equals_strict, c_between=c_between, direct_inference=direct_inference)


def run(rep, names, tier="quick", cvc5=False):
    for nm in names:
        t0 = time.time()
        for label, neg in LEMMAS[nm]():
            s = Z.Solver()
            s.set("timeout", 300000)
            s.add(neg)
            r = s.check()
            rec = dict(lemma="%s: %s" % (nm, label), result="valid" if r == Z.unsat else str(r))
            if r != Z.unsat:
                rep.inconclusive.append("spec sanity lemma %s/%s is not valid (%s): the specification library is suspect" % (nm, label, r))
                if r == Z.sat:
                    m = s.model()
                    rec["countermodel"] = {str(d): str(m[d]) for d in m.decls()}
            elif cvc5 and tier == "thorough":
                rec["cvc5"] = _cvc5(s)
                if rec["cvc5"] not in ("unsat", "unavailable", "timeout"):
                    rep.inconclusive.append("cvc5 disagrees on lemma %s/%s: %s" % (nm, label, rec["cvc5"]))
            rep.lemmas.append(rec)
            rep.queries += 1
        rep.note("lemma %s checked in %.1fs" % (nm, time.time() - t0))


def _cvc5(solver):
    try:
        with tempfile.NamedTemporaryFile("w", suffix=".smt2", delete=False) as fd:
            fd.write("(set-logic ALL)\n" + solver.to_smt2())
            path = fd.name
        try:
            p = subprocess.run(["cvc5", "--tlimit=120000", path], capture_output=True, text=True, timeout=150)
            out = p.stdout.strip().splitlines()
            return out[0] if out else "error: " + p.stderr[:100]
        finally:
            os.unlink(path)
    except FileNotFoundError:
        return "unavailable"
    except subprocess.TimeoutExpired:
        return "timeout"
