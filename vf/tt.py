"""Truth-table formulas: the stand-in for pysmt FNodes (DESIGN.md 1, 2.2).

A propositional formula over the N atoms of the current context is represented by its
truth table, a bit-vector of width W = 2^N (bit w = value in world w; atom i is true in
world w iff bit i of w is set).  Concrete tables are Python ints (so concrete runs never
touch z3), symbolic ones are z3 BitVec terms.  Every formula also keeps its constructor
tree, from which a genuine z3 Boolean *skeleton* is built on demand (opaque symbolic
leaves become z3 constants `leaf!k`); the real `tseitin-cnf` tactic runs on skeletons.
"""
from __future__ import annotations

from .rz3 import Z
from . import symex


class Ctx:
    N = 0
    W = 1
    FULLI = 1
    atoms: dict[str, int] = {}
    atom_names: list[str] = []
    leaves: dict[str, "F"] = {}      # skeleton-constant name -> leaf formula


CTX = Ctx()


def set_universe(n, names=None):
    CTX.N = n
    CTX.W = 2 ** n
    CTX.FULLI = (1 << CTX.W) - 1
    CTX.atom_names = list(names) if names is not None else ["a%d" % i for i in range(n)]
    assert len(CTX.atom_names) == n
    CTX.atoms = {nm: i for i, nm in enumerate(CTX.atom_names)}
    CTX.leaves = {}
    _bvcache.clear()


def atom_table(i):
    t = 0
    for w in range(CTX.W):
        if (w >> i) & 1:
            t |= 1 << w
    return t


# -- table algebra (int or z3 BitVec) ----------------------------------------------------
_bvcache: dict = {}


def _lift(x):
    if isinstance(x, int):
        k = ("v", x)
        r = _bvcache.get(k)
        if r is None:
            r = _bvcache[k] = Z.BitVecVal(x, CTX.W)
        return r
    return x


def t_and(a, b):
    if isinstance(a, int):
        if isinstance(b, int):
            return a & b
        if a == CTX.FULLI:
            return b
        if a == 0:
            return 0
    elif isinstance(b, int):
        if b == CTX.FULLI:
            return a
        if b == 0:
            return 0
    elif a is b:
        return a
    return _lift(a) & _lift(b)


def t_or(a, b):
    if isinstance(a, int):
        if isinstance(b, int):
            return a | b
        if a == 0:
            return b
        if a == CTX.FULLI:
            return a
    elif isinstance(b, int):
        if b == 0:
            return a
        if b == CTX.FULLI:
            return b
    elif a is b:
        return a
    return _lift(a) | _lift(b)


def t_not(a):
    if isinstance(a, int):
        return CTX.FULLI & ~a
    return ~a


def t_nonzero(a):
    """Python bool or z3 Bool: the table has a model."""
    if isinstance(a, int):
        return a != 0
    return a != _lift(0)


def t_bit(a, w):
    """Value in concrete world w: Python bool or z3 Bool."""
    if isinstance(a, int):
        return bool((a >> w) & 1)
    return Z.Extract(w, w, a) == Z.BitVecVal(1, 1)


def t_lookup(a, wv):
    """Value in the symbolic world wv (BitVec of width max(N,1)): z3 Bool."""
    a = _lift(a)
    if CTX.W > wv.size():
        wv = Z.ZeroExt(CTX.W - wv.size(), wv)
    elif CTX.W < wv.size():
        wv = Z.Extract(CTX.W - 1, 0, wv)
    return Z.Extract(0, 0, Z.LShR(a, wv)) == Z.BitVecVal(1, 1)


# -- formulas ----------------------------------------------------------------------------
class F:
    """Stand-in for a pysmt Boolean FNode."""
    __slots__ = ("bv", "kind", "args", "name", "_sk", "_key")

    def __init__(self, bv, kind, args=(), name=None):
        self.bv = bv
        self.kind = kind        # 'sym' 'leaf' 'not' 'and' 'or' 'implies' 'iff' 'true' 'false'
        self.args = args
        self.name = name
        self._sk = None
        # pysmt formulas and z3 terms are hash-consed: structurally identical formulas are
        # the same node (equal, same hash).  The stand-in mirrors that with a structural key.
        self._key = (kind, name, tuple(a._key for a in args))

    def eq(self, other):            # z3 ExprRef API
        return isinstance(other, F) and self._key == other._key

    def hash(self):                 # z3 ExprRef API
        return hash(self._key)

    def get_id(self):
        return hash(self._key)

    def node_id(self):
        return hash(self._key)

    # pysmt-ish API used by the repository
    def is_symbol(self):
        return self.kind == "sym"

    def is_not(self):
        return self.kind == "not"

    def is_and(self):
        return self.kind == "and"

    def is_or(self):
        return self.kind == "or"

    def is_true(self):
        return self.kind == "true"

    def is_false(self):
        return self.kind == "false"

    def is_bool_constant(self):
        return self.kind in ("true", "false")

    def arg(self, i):
        return self.args[i]

    def symbol_name(self):
        assert self.kind in ("sym", "leaf")
        return self.name

    def get_free_variables(self):
        out = []
        seen = set()

        def rec(f):
            # an opaque leaf stands for an arbitrary formula over the signature: it
            # contributes no *named* variable of its own
            if f.kind == "sym":
                if f.name not in seen:
                    seen.add(f.name)
                    out.append(f)
            for a in f.args:
                rec(a)
        rec(self)
        return set(out)

    def __eq__(self, o):
        # z3 idiom used by the repository: `expr == False`
        if o is False:
            return Not(self)
        if o is True:
            return self
        return isinstance(o, F) and self._key == o._key

    def __ne__(self, o):
        return not (isinstance(o, F) and self._key == o._key)

    def __hash__(self):
        return hash(self._key)

    def __str__(self):
        # pysmt's FNode.__str__ is serialize(threshold=5): nodes deeper than five
        # connectives below the root are printed as "..."
        return self._s(5)

    def _s(self, d):
        if d <= 0:
            return "..."
        k = self.kind
        if k in ("sym", "leaf"):
            return self.name
        if k == "true":
            return "True"
        if k == "false":
            return "False"
        if k == "not":
            return "(! %s)" % self.args[0]._s(d - 1)
        op = {"and": " & ", "or": " | ", "implies": " -> ", "iff": " <-> "}[k]
        return "(" + op.join(a._s(d - 1) for a in self.args) + ")"

    __repr__ = __str__

    def serialize(self, threshold=None):
        return self._s(threshold if threshold is not None else 10 ** 6)

    # skeleton for the real tseitin tactic
    def skeleton(self):
        if self._sk is None:
            k = self.kind
            if k == "true":
                s = Z.BoolVal(True)
            elif k == "false":
                s = Z.BoolVal(False)
            elif k in ("sym", "leaf"):
                s = Z.Bool("leaf!" + self.name)
                CTX.leaves["leaf!" + self.name] = self
            elif k == "not":
                s = Z.Not(self.args[0].skeleton())
            elif k == "and":
                s = Z.And(*[a.skeleton() for a in self.args])
            elif k == "or":
                s = Z.Or(*[a.skeleton() for a in self.args])
            elif k == "implies":
                s = Z.Implies(self.args[0].skeleton(), self.args[1].skeleton())
            elif k == "iff":
                s = self.args[0].skeleton() == self.args[1].skeleton()
            else:
                raise symex.Inconclusive("no skeleton for kind %r" % k)
            self._sk = s
        return self._sk


def _flat(a):
    if len(a) == 1 and isinstance(a[0], (list, tuple, set, frozenset)) or (len(a) == 1 and hasattr(a[0], "__next__")):
        a = tuple(a[0])
    return a


def TRUE():
    return F(CTX.FULLI, "true")


def FALSE():
    return F(0, "false")


def Bool(v):
    return TRUE() if v else FALSE()


def Symbol(name, typ=None):
    if name not in CTX.atoms:
        raise symex.Inconclusive("symbol %r is not an atom of the current universe %r" % (name, CTX.atom_names))
    return F(atom_table(CTX.atoms[name]), "sym", (), name)


def Leaf(name, bv):
    """An opaque formula with the given (symbolic) truth table."""
    return F(bv, "leaf", (), name)


def And(*a):
    a = _flat(a)
    r = CTX.FULLI
    for x in a:
        r = t_and(r, x.bv)
    return F(r, "and", tuple(a))


def Or(*a):
    a = _flat(a)
    r = 0
    for x in a:
        r = t_or(r, x.bv)
    return F(r, "or", tuple(a))


def Not(a):
    return F(t_not(a.bv), "not", (a,))


def Implies(a, b):
    return F(t_or(t_not(a.bv), b.bv), "implies", (a, b))


def Iff(a, b):
    x = t_or(t_and(a.bv, b.bv), t_and(t_not(a.bv), t_not(b.bv)))
    return F(x, "iff", (a, b))


# -- rendering a concrete table as repository syntax -------------------------------------
def table_to_text(t, names=None, style="dnf"):
    """Concrete table -> formula text in .cl syntax (',' and, ';' or, '!' not)."""
    names = names or CTX.atom_names
    n = len(names)
    W = 2 ** n
    full = (1 << W) - 1
    t &= full
    if n == 0:
        return "Top" if t else "Bottom"
    if t == full:
        return "Top" if style != "noconst" else "%s;!%s" % (names[0], names[0])
    if t == 0:
        return "Bottom" if style != "noconst" else "%s,!%s" % (names[0], names[0])
    # Quine-McCluskey is overkill for <= 4 atoms: greedy cover by cubes, small first
    cubes = []
    import itertools
    for k in range(0, n + 1):
        for pos in itertools.combinations(range(n), k):
            for vals in itertools.product((0, 1), repeat=k):
                m = 0
                for w in range(W):
                    if all(((w >> p) & 1) == v for p, v in zip(pos, vals)):
                        m |= 1 << w
                if m & ~t == 0:
                    cubes.append((m, pos, vals))
    cover = []
    rest = t
    # prefer large cubes
    cubes.sort(key=lambda c: (len(c[1]), c[1], c[2]))
    while rest:
        best = max(cubes, key=lambda c: (bin(c[0] & rest).count("1"), -len(c[1])))
        cover.append(best)
        rest &= ~best[0]
    parts = []
    for m, pos, vals in cover:
        lits = [(names[p] if v else "!" + names[p]) for p, v in zip(pos, vals)]
        parts.append(",".join(lits) if len(lits) > 1 else lits[0])
    if len(parts) == 1:
        return parts[0]
    return ";".join("(%s)" % p if "," in p else p for p in parts)
