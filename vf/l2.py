"""L2 stub depth (DESIGN.md 2.4): `OptimizerRC2.minimal_correction_subsets` replaced by its
specification (C15 part 2), justified by the L1 check of C15.

Contract used:  given hard clauses H, the soft clauses and `ignore`, the result is the
antichain of inclusion-minimal members of { viol(m) : m |= H }, viol(m) = the indices not
in `ignore` one of whose non-falsification clauses is false under m.  The real
algorithm guarantees this whenever every non-falsification clause of every non-ignored
index is among the soft clauses with weight 1 (then `cost == 0` implies viol = {} and
the early exit of get_violated_conditional is sound).  When a call does not meet that
precondition the stub steps aside and the real method runs on the RC2 stand-in (L1).
The order of the returned list is unspecified in the real code (it depends on the
models RC2 happens to return); L2 returns one canonical order, L1 explores the others.
"""
from __future__ import annotations

import itertools
from collections import Counter

from .rz3 import Z
from . import symex, tt, fakes, ops
from .tt import CTX

_STATE = {"orig": None, "active": False, "calls": 0, "fallbacks": 0}


def activate(es=None):
    om = ops.R["om"]
    if _STATE["orig"] is None:
        _STATE["orig"] = om.OptimizerRC2.minimal_correction_subsets
    om.OptimizerRC2.minimal_correction_subsets = _l2_mcs
    _STATE["active"] = True


def deactivate():
    if _STATE["orig"] is not None:
        ops.R["om"].OptimizerRC2.minimal_correction_subsets = _STATE["orig"]
    _STATE["active"] = False


def _l2_mcs(self, wcnf, ignore=[], deadline=None):
    es = self.epistemic_state
    nf = es["nf_cnf_dict"]
    idxs = [i for i in nf if i not in ignore]
    need = Counter()
    for i in idxs:
        for c in nf[i]:
            need[tuple(c)] += 1
    have = Counter()
    for c, w in zip(wcnf.soft, wcnf.wght):
        if w == 1:
            have[tuple(c)] += 1
    engine_name = str(es.get("pmaxsat_solver", ""))[4:] or "g3"
    if any(have[c] < n for c, n in need.items()) or engine_name not in fakes._solver_names():
        _STATE["fallbacks"] += 1
        return _STATE["orig"](self, wcnf, ignore, deadline)
    if deadline and deadline.expired():
        raise TimeoutError
    _STATE["calls"] += 1
    pool = es["pool"]
    hard = [list(c) for c in wcnf.hard]
    vs = set()
    for c in hard:
        vs.update(abs(l) for l in c)
    for i in idxs:
        for c in nf[i]:
            vs.update(abs(l) for l in c)
    leaf, free = {}, []
    for v in sorted(vs):
        o = pool.id2obj.get(v)
        f = None
        if isinstance(o, Z.ExprRef) and Z.is_const(o) and o.decl().kind() == Z.Z3_OP_UNINTERPRETED:
            f = CTX.leaves.get(o.decl().name())
        if f is not None:
            leaf[v] = f
        else:
            free.append(v)
    if len(free) > 10:
        raise symex.Inconclusive("L2 stub: %d free SAT variables" % len(free))

    def clause_val(c, w, h):
        parts = []
        for l in c:
            v = abs(l)
            b = tt.t_bit(leaf[v].bv, w) if v in leaf else h[v]
            if l < 0:
                b = (not b) if isinstance(b, bool) else Z.Not(b)
            if b is True:
                return True
            if b is not False:
                parts.append(b)
        if not parts:
            return False
        return parts[0] if len(parts) == 1 else Z.Or(*parts)

    def conj(xs):
        out = []
        for x in xs:
            if x is False:
                return False
            if x is not True:
                out.append(x)
        if not out:
            return True
        return out[0] if len(out) == 1 else Z.And(*out)

    def neg(x):
        return (not x) if isinstance(x, bool) else Z.Not(x)

    combos = []
    for w in range(CTX.W):
        for bits in itertools.product((False, True), repeat=len(free)):
            h = dict(zip(free, bits))
            hv = conj([clause_val(c, w, h) for c in hard])
            if hv is False:
                continue
            viol = {i: neg(conj([clause_val(c, w, h) for c in nf[i]])) for i in idxs}
            combos.append((hv, viol))

    def disj(xs):
        out = []
        for x in xs:
            if x is True:
                return True
            if x is not False:
                out.append(x)
        if not out:
            return False
        return out[0] if len(out) == 1 else Z.Or(*out)

    if not symex.sym_truth(disj([hv for hv, _ in combos])):
        return []
    found = []
    for k in range(len(idxs) + 1):
        for S in itertools.combinations(idxs, k):
            Sset = set(S)
            if any(set(f) <= Sset for f in found):
                continue
            feas = disj([conj([hv] + [(viol[i] if i in Sset else neg(viol[i])) for i in idxs]) for hv, viol in combos])
            if symex.sym_truth(feas):
                found.append(list(S))
    return found
