"""Symbolic integers: z3 Int terms that behave like Python ints where the repository uses
them (ranks, impacts).  Comparisons yield SymBools (decisions when their truth value is
requested); hashing / indexing concretises by deciding over a stated finite range."""
from __future__ import annotations

from .rz3 import Z
from . import symex
from .symex import SymBool


def _e(x):
    if isinstance(x, SymInt):
        return x.e
    if isinstance(x, bool):
        return Z.IntVal(int(x))
    if isinstance(x, int):
        return Z.IntVal(x)
    return NotImplemented


class SymInt:
    __slots__ = ("e", "lo", "hi")

    def __init__(self, e, lo=0, hi=8):
        self.e = e
        self.lo = lo
        self.hi = hi

    def _bin(self, o, f):
        oe = _e(o)
        if oe is NotImplemented:
            return NotImplemented
        lo = self.lo + (o.lo if isinstance(o, SymInt) else int(o))
        hi = self.hi + (o.hi if isinstance(o, SymInt) else int(o))
        return SymInt(f(self.e, oe), min(lo, self.lo), max(hi, self.hi))

    def __add__(self, o):
        return self._bin(o, lambda a, b: a + b)

    __radd__ = __add__

    def __sub__(self, o):
        oe = _e(o)
        if oe is NotImplemented:
            return NotImplemented
        return SymInt(self.e - oe, self.lo - 64, self.hi)

    def __rsub__(self, o):
        oe = _e(o)
        if oe is NotImplemented:
            return NotImplemented
        return SymInt(oe - self.e, -64, 64)

    def _cmp(self, o, f):
        oe = _e(o)
        if oe is NotImplemented:
            return NotImplemented
        return SymBool(f(self.e, oe))

    def __lt__(self, o):
        return self._cmp(o, lambda a, b: a < b)

    def __le__(self, o):
        return self._cmp(o, lambda a, b: a <= b)

    def __gt__(self, o):
        return self._cmp(o, lambda a, b: a > b)

    def __ge__(self, o):
        return self._cmp(o, lambda a, b: a >= b)

    def __eq__(self, o):
        if o is None:
            return False
        return self._cmp(o, lambda a, b: a == b)

    def __ne__(self, o):
        if o is None:
            return True
        return self._cmp(o, lambda a, b: a != b)

    def concretise(self):
        for k in range(self.lo, self.hi + 1):
            if symex.sym_truth(self.e == k):
                return k
        raise symex.Inconclusive("SymInt outside its stated range [%d,%d]" % (self.lo, self.hi))

    def __hash__(self):
        return hash(self.concretise())

    def __index__(self):
        return self.concretise()

    __int__ = __index__

    def __repr__(self):
        return "SymInt(%s)" % self.e
