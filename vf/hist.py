"""C13 / C14 harness: the real `InferenceManager.inference` end to end (DataFrame included) on
ONE manager, driven through a history of calls; parallel evaluation with a
multiprocessing stand-in; time budgets with a schedule-driven clock."""
from __future__ import annotations

import copy

from .rz3 import Z
from . import symex, ops, specs, tt, concretise, cinf
from .tt import CTX


# -- multiprocessing stand-in -------------------------------------------------------------
class FakeMP:
    """`multiprocessing` as seen by inference/inference.py: a worker runs the target on a deep
    copy of the operator object (process isolation under fork) when it is started; whether
    it is still alive after join() ('hung') is a free decision when `may_hang` is set - a
    hung worker has not delivered a result."""

    def __init__(self, may_hang=False):
        self.may_hang = may_hang
        self.procs = []
        self.hung = []

    class _Mgr:
        def __enter__(self):
            return self

        def __exit__(self, *a):
            return False

        def dict(self):
            return {}

        def shutdown(self):
            pass

    def Manager(self):
        return FakeMP._Mgr()

    def Process(self, target=None, args=(), kwargs=None, **kw):
        p = _Proc(self, target, args, kwargs or {})
        self.procs.append(p)
        return p

    def get_context(self, *a):
        return self

    def leftover(self):
        return [i for i, p in enumerate(self.procs) if p.started and (p.alive or not p.joined_after_end)]


class _Proc:
    def __init__(self, mp, target, args, kwargs):
        self.mp, self.target, self.args, self.kwargs = mp, target, args, kwargs
        self.started = False
        self.alive = False
        self.joined_after_end = False
        self.terminated = False
        self.exitcode = None

    def start(self):
        self.started = True
        hung = False
        if self.mp.may_hang:
            hung = symex.sym_truth(symex.ENG.fresh("hung"))
        self.mp.hung.append(bool(hung))
        if hung:
            self.alive = True
            return
        owner = getattr(self.target, "__self__", None)
        if owner is not None:
            # the shared result mapping must stay shared; everything else is the child's copy
            shared = [a for a in self.args if isinstance(a, dict)]
            memo = {id(a): a for a in shared}
            clone = copy.deepcopy(owner, memo)
            fn = getattr(clone, self.target.__name__)
        else:
            fn = self.target
        try:
            fn(*self.args, **self.kwargs)
            self.exitcode = 0
        except symex.Inconclusive:
            raise
        except Exception:       # a crashing child does not propagate into the parent
            self.exitcode = 1
        self.alive = False

    def join(self, timeout=None):
        if not self.alive:
            self.joined_after_end = True

    def is_alive(self):
        return self.alive

    def terminate(self):
        self.alive = False
        self.terminated = True
        self.joined_after_end = False

    kill = terminate


class HistHarness(symex.Harness):
    """history: list of calls, a call = list of (key, query_index, text)."""

    def __init__(self, system, pm, weakly, N, M, K, history, parallel=False, may_hang=False, level="L2",
                 label=None, kw=None, shapes=None, known_rule=None, layers=None):
        ops.setup()
        self.system, self.pm, self.weakly = system, pm, weakly
        self.N, self.M, self.K = N, M, K
        self.history, self.parallel, self.may_hang, self.level = history, parallel, may_hang, level
        self.kw = kw or {}
        self.sb = ops.SymBase(N, M, K, shapes)
        self.known_rule = known_rule      # (finding id, description, regex every message must match)
        self.layers = layers              # slice: conditional i sits in tolerance layer layers[i]
        A, B, QA, QB = self.sb.tables()
        self.spec = specs.BaseSpec(A, B)
        self.QA, self.QB = QA, QB
        self.eta = [Z.Int("xeta%d" % i) for i in range(M)]
        self.label = label or "history %s/%s %s N=%d M=%d %s%s%s: %s" % (
            system, pm or "-", "ext" if weakly else "strict", N, M, "parallel" if parallel else "sequential",
            "+hang" if may_hang else "", (" slice-layers=%s" % (layers,)) if layers else "", history)
        self._exp = {}
        self.reset()

    def reset(self):
        self.counts = {"answered": 0, "refused": 0, "exc": 0, "limit": 0, "ans_true": 0, "ans_false": 0, "rows": 0, "flagged_rows": 0}
        self.viol, self.samples, self.witness = [], [], {}

    def collect(self):
        return dict(counts=self.counts, viol=self.viol, samples=self.samples, witness=self.witness, entered=sorted(ops.ENTERED))

    def merge(self, s):
        for k, v in s["counts"].items():
            self.counts[k] += v
        self.viol.extend(s["viol"])
        self.samples.extend(s["samples"])
        for k, v in s["witness"].items():
            self.witness[k] = self.witness.get(k, 0) + v
        ops.ENTERED.update(s["entered"])

    def mk_engine(self):
        tt.set_universe(self.N)
        pre = []
        if self.layers:
            for i, L in enumerate(self.layers):
                pre.append(Z.And(self.spec.placed[i], self.spec.layer[i] == specs.iv(L)))
        return symex.Engine(assumptions=pre, max_decisions=8000)

    def known_preds(self):
        return [(self.known_rule[0], self.known_rule[1], None)] if self.known_rule else []

    def make_base(self):
        R = ops.R
        conds = {}
        for pos in range(self.M):
            c = R["Conditional"](self.sb.side("B", pos), self.sb.side("A", pos), "c%d" % (pos + 1))
            c.index = pos + 1
            conds[pos + 1] = c
        return R["BeliefBase"](list(CTX.atom_names), conds, "sym")

    def prepare(self, eng):
        pass

    def cleanup(self):
        pass

    def run(self, eng):
        R = ops.R
        R["_serial"][0] = 0
        import inference.inference as inf_mod
        from . import l2
        mgr = R["im"].InferenceManager(self.make_base(), self.system, pmaxsat_solver=self.pm or "rc2", weakly=self.weakly)
        real_mp = inf_mod.mp
        fake = FakeMP(self.may_hang)
        inf_mod.mp = fake
        if self.level == "L2":
            l2.activate()
        self.prepare(eng)
        out = []
        try:
            for ci, call in enumerate(self.history):
                qd = {}
                for key, qi, text in call:
                    qd[key] = R["Conditional"](self.sb.side("QB", qi), self.sb.side("QA", qi), text)
                try:
                    df = mgr.inference(R["Queries"](qd), multi_inference=self.parallel, **self.call_kw(ci))
                except AssertionError as e:
                    out.append(("refused", str(e)[:80]))
                    continue
                except Exception as e:  # noqa: BLE001
                    if isinstance(e, symex.Inconclusive):
                        raise
                    out.append(("exc", type(e).__name__, str(e)[:160]))
                    continue
                rows = []
                for _, r in df.iterrows():
                    rows.append((r["index"], r["result"], r["inference_timed_out"], r["preprocessing_timed_out"], r["query"]))
                out.append(("rows", rows))
            self.after_calls(eng)
            return ("hist", out, fake.leftover(), list(fake.hung), list(eng.notes.get("giveups", [])), list(eng.notes.get("marks", [])), list(eng.notes.get("clock_log", [])))
        finally:
            inf_mod.mp = real_mp
            l2.deactivate()
            self.cleanup()

    def call_kw(self, ci):
        return dict(self.kw)

    def after_calls(self, eng):
        pass

    def extra_checks(self, res, msgs):
        pass

    # expected answer of query qi (z3 Bool), or None for c-inference (handled separately)
    def expected(self, qi):
        if qi not in self._exp:
            self._exp[qi] = specs.spec_of(self.spec, self.system, self.QA[qi], self.QB[qi], self.weakly) if self.system != "c-inference" else None
        return self._exp[qi]

    def accepted(self):
        return self.spec.accepted_base(self.weakly)

    def flag_allowed(self, ci):
        return self.may_hang          # a worker declared hung is reported through the flags

    def wrong_answer(self, eng, qi, ans):
        """model if the path admits an input on which `ans` is not the right answer to query qi"""
        acc = self.accepted()
        if self.system != "c-inference":
            return eng.vc(Z.And(acc, self.expected(qi) != Z.BoolVal(bool(ans))))
        sp = self.spec
        if ans:
            return eng.vc(Z.And(acc, sp.crep(self.eta), Z.Not(sp.query_accepted_c(self.eta, self.QA[qi], self.QB[qi]))))
        # answer False: exists rejecting c-rep for every input of the path (CEGIS, cf. cinf.py)
        cands = [[Z.IntVal(0)] * self.M, [Z.IntVal(1)] * self.M]

        def works(c):
            return Z.And(sp.crep(c), Z.Not(sp.query_accepted_c(c, self.QA[qi], self.QB[qi])))
        for _ in range(12):
            m = eng.vc(Z.And(acc, *[Z.Not(works(c)) for c in cands]))
            if m is None:
                return None
            s = Z.Solver()
            for v in self.sb.vars:
                s.add(v == m.eval(v, model_completion=True))
            s.add(works(self.eta))
            r = s.check()
            if r == Z.unsat:
                return m
            if r == Z.unknown:
                raise symex.Inconclusive("unknown in c-rep witness search")
            mm = s.model()
            cands.append([mm.eval(e, model_completion=True) for e in self.eta])
        raise symex.Inconclusive("CEGIS did not converge")

    def on_path(self, eng, res):
        if res[0] == "limit":
            self.counts["limit"] += 1
            self._viol(eng, None, res, "path exceeded the decision limit")
            return
        calls, leftover = res[1], res[2]
        msgs = []
        model = None
        if leftover:
            msgs.append("worker processes left behind (started, not joined after they ended): %s" % leftover)
        for ci, (call, got) in enumerate(zip(self.history, calls)):
            if got[0] == "refused":
                self.counts["refused"] += 1
                m = eng.vc(self.accepted())
                if m is not None:
                    msgs.append("call %d refused an acceptable base" % ci)
                    model = model or m
                continue
            if got[0] == "exc":
                self.counts["exc"] += 1
                m = eng.vc(self.accepted())
                if m is not None:
                    msgs.append("call %d raised %s" % (ci, got[1:]))
                    model = model or m
                continue
            self.counts["answered"] += 1
            rows = got[1]
            if len(rows) != len(call):
                msgs.append("call %d: %d rows for %d queries" % (ci, len(rows), len(call)))
                continue
            for (key, qi, text), row in zip(call, rows):
                self.counts["rows"] += 1
                idx, ans, it, pt, qtext = row
                if qtext != text or idx != key:
                    msgs.append("call %d: row for query key=%s text=%s carries key=%s text=%s" % (ci, key, text, idx, qtext))
                if it or pt:
                    self.counts["flagged_rows"] += 1
                    if not self.flag_allowed(ci):
                        msgs.append("call %d: query %s flagged as timed out although no budget was set" % (ci, text))
                    elif ans is not False:
                        msgs.append("call %d: query %s flagged as timed out but answer is %r" % (ci, text, ans))
                    continue
                if ans is not True and ans is not False:
                    msgs.append("call %d: answer of %s is %r" % (ci, text, ans))
                    continue
                self.counts["ans_true" if ans else "ans_false"] += 1
                m = self.wrong_answer(eng, qi, ans)
                if m is not None:
                    msgs.append("call %d: query %s answered %s, the definition says otherwise" % (ci, text, ans))
                    model = model or m
        self.extra_checks(res, msgs)
        if msgs and self.known_rule is not None:
            import re
            if all(re.search(self.known_rule[2], m_) for m_ in msgs):
                k = "known:" + self.known_rule[0]
                self.witness[k] = self.witness.get(k, 0) + 1
                msgs = []
        if msgs:
            self._viol(eng, model, res, "; ".join(msgs[:4]))
        if len(self.samples) < 2:
            ms = eng.vc(Z.BoolVal(True))
            if ms is not None:
                self.samples.append(dict(config=self.label, result=_plain(res[1]), tables={str(v): concretise.model_int(ms, v) for v in self.sb.vars}))

    def _viol(self, eng, model, res, msg):
        m = model or eng.vc(Z.BoolVal(True))
        if m is not None and len(self.viol) < 20:
            self.viol.append(dict(res=["hist", msg, _plain(res[1:2])], hung=(list(res[3]) if len(res) > 3 else []), giveups=(list(res[4]) if len(res) > 4 else []), clock=(list(res[6]) if len(res) > 6 else None), vars={str(v): concretise.model_int(m, v) for v in self.sb.vars}))

    # replay: the same history on the real stack (sequential or with real processes)
    def replay(self, cand):
        vars_ = cand["vars"]
        tt.set_universe(self.N)
        lv = ops.leafval_of(vars_)
        base = []
        for pos in range(self.M):
            c = concretise.formula_tree(self.sb.side("B", pos), lv)
            a = concretise.formula_tree(self.sb.side("A", pos), lv)
            base.append([pos + 1, c, a, "(%s|%s)" % (concretise.tree_to_text(c), concretise.tree_to_text(a))])
        steps = [{"op": "manager", "id": "m", "base": base, "system": self.system, "pmaxsat": self.pm or "rc2", "weakly": self.weakly}]
        use_clock = isinstance(self, BudgetHarness)
        if use_clock:
            steps.append({"op": "clock", "jumps": [list(j) for j in (cand.get("clock") or [])]})
        for ci, call in enumerate(self.history):
            if use_clock:
                steps.append({"op": "clock_mark"})
            ql = []
            for key, qi, text in call:
                ql.append([key, concretise.formula_tree(self.sb.side("QB", qi), lv), concretise.formula_tree(self.sb.side("QA", qi), lv), text])
            kw = dict(self.call_kw(ci))
            if self.parallel:
                kw["multi_inference"] = True
            st = {"op": "inference", "mgr": "m", "queries": ql, "kw": kw}
            if any(cand.get("giveups", [])) and ci == 0:
                st["giveup_at"] = list(cand["giveups"]).index(True)
            if self.may_hang:
                flags = list(cand.get("hung", []))
                off = sum(len(c) for c in self.history[:ci])
                st["hang"] = [key for j, (key, qi, text) in enumerate(call) if off + j < len(flags) and flags[off + j]]
            steps.append(st)
        if use_clock:
            steps.append({"op": "clock_mark"})
        job = {"atoms": list(CTX.atom_names), "steps": steps}
        out = concretise.run_real(job, timeout=600)
        rec = dict(harness=self.label, tables=vars_, job=job, real=out, symbolic_result=cand["res"])
        if "steps" not in out:
            return "error", rec
        marks = [st_.get("ok") for st_, js in zip(out["steps"], steps) if js["op"] == "clock_mark"]
        inf_steps = [st_ for st_, js in zip(out["steps"], steps) if js["op"] == "inference"]
        out = {"steps": [out["steps"][0]] + inf_steps}
        # judge with the same assertions, concretely
        s = Z.Solver()
        for v in self.sb.vars:
            s.add(v == vars_[str(v)])
        s.check()
        mdl = s.model()
        acc = Z.is_true(mdl.eval(self.accepted(), model_completion=True))
        msgs = []
        for ci, call in enumerate(self.history):
            r = out["steps"][ci + 1]
            if "exc" in r:
                refused = r["exc"][0] == "AssertionError"
                if acc or not refused:
                    msgs.append("call %d raised %s" % (ci, r["exc"]))
                continue
            if not acc:
                msgs.append("call %d answered on a base that must be refused" % ci)
                continue
            rows = r["ok"]
            if len(rows) != len(call):
                msgs.append("call %d: %d rows for %d queries" % (ci, len(rows), len(call)))
                continue
            for (key, qi, text), row in zip(call, rows):
                idx, ans, it, pt, qtext = row
                if qtext != text or idx != key:
                    msgs.append("call %d: row for key=%s text=%s carries key=%s text=%s" % (ci, key, text, idx, qtext))
                if it or pt:
                    if not self.flag_allowed(ci):
                        msgs.append("call %d: %s flagged timed out without budget" % (ci, text))
                    continue
                exp = self.expected_concrete(vars_, qi)
                if exp is not None and ans != exp:
                    msgs.append("call %d: query %s answered %s, definition says %s" % (ci, text, ans, exp))
        if use_clock and all(isinstance(m_, int) for m_ in marks):
            calls = []
            for st_ in out["steps"][1:]:
                calls.append(("rows", st_["ok"]) if "ok" in st_ else ("exc",) + tuple(st_["exc"]))
            self.extra_checks(("hist", calls, [], [], [], marks), msgs)
        rec["observed"] = [st.get("ok", st.get("exc")) for st in out["steps"][1:]]
        rec["expected"] = "every row carries its own key/text and the answer of the definition"
        rec["assertion"] = msgs
        return ("confirmed" if msgs else "not_reproduced"), rec

    def expected_concrete(self, vars_, qi):
        s = Z.Solver()
        for v in self.sb.vars:
            s.add(v == vars_[str(v)])
        if self.system != "c-inference":
            s.check()
            return Z.is_true(s.model().eval(self.expected(qi), model_completion=True))
        sp = self.spec
        s.add(sp.crep(self.eta), Z.Not(sp.query_accepted_c(self.eta, self.QA[qi], self.QB[qi])))
        r = s.check()
        return None if r == Z.unknown else (r == Z.unsat)


def _plain(x):
    if isinstance(x, (list, tuple)):
        return [_plain(y) for y in x]
    if isinstance(x, (bool, int, float, str, type(None))):
        return x
    return str(x)


# -- time budgets (C14) ----------------------------------------------------------------------
class FakeClock:
    """Schedule-driven clock for perf_counter / perf_counter_ns as seen by the repository:
    time stands still except at <= `jumps` jump events; whether a given read is a jump event
    and how far it jumps (past a per-query budget / past everything) are free decisions."""

    SIZES = (1.5, 7.0, 10000.0)

    def __init__(self, jumps):
        self.now = 100.0
        self.left = jumps
        self.reads = 0
        self.log = []

    def tick(self):
        self.reads += 1
        if self.left > 0 and symex.ENG is not None:
            if symex.sym_truth(symex.ENG.fresh("jump")):
                self.left -= 1
                size = self.SIZES[-1]
                for sz in self.SIZES[:-1]:
                    if symex.sym_truth(symex.ENG.fresh("size")):
                        size = sz
                        break
                self.now += size
                self.log.append((self.reads, size))

    def perf_counter(self):
        self.tick()
        return self.now

    def perf_counter_ns(self):
        self.tick()
        return int(self.now * 1e9)


class BudgetHarness(HistHarness):
    """history[ci] runs with budgets[ci] = dict(total_timeout=..., preprocessing_timeout=...,
    inference_timeout=...) (empty dict = no budget)."""

    def __init__(self, *a, budgets=None, jumps=1, give_up=False, **kw):
        self.budgets = budgets or []
        self.jumps = jumps
        self.give_up = give_up
        super().__init__(*a, **kw)
        self.label += " budgets=%s jumps<=%d%s" % (self.budgets, jumps, " solver-may-give-up" if give_up else "")

    def call_kw(self, ci):
        if symex.ENG is not None and getattr(self, "_clock", None) is not None:
            symex.ENG.notes.setdefault("marks", []).append(self.jumps - self._clock.left)
        return dict(self.budgets[ci]) if ci < len(self.budgets) else {}

    def after_calls(self, eng):
        eng.notes.setdefault("marks", []).append(self.jumps - self._clock.left)
        eng.notes["clock_log"] = list(self._clock.log)

    def flag_allowed(self, ci):
        return True

    def extra_checks(self, res, msgs):
        """A per-query budget is per query: in a sequential call that only sets
        inference_timeout, one clock jump can expire the deadline of at most the query under
        evaluation, so the number of rows flagged 'inference timed out' cannot exceed the
        number of jump events that happened during that call."""
        if self.parallel or len(res) < 6:
            return
        marks = res[5]
        for ci, got in enumerate(res[1]):
            b = self.budgets[ci] if ci < len(self.budgets) else {}
            if got[0] != "rows" or ci + 1 >= len(marks):
                continue
            flagged = sum(1 for row in got[1] if row[2])
            if set(b) <= {"inference_timeout"}:
                jumps_in_call = marks[ci + 1] - marks[ci]
                # a solver give-up ('unknown' under the budget's timeout) is an expiry event too
                allowed = (jumps_in_call + sum(1 for g in res[4] if g)) if b else 0
                if any(row[3] for row in got[1]):
                    continue
                if flagged > allowed:
                    msgs.append("call %d: %d rows flagged as timed out although only %d budget expiry event(s) happened during the call (per-query budget %s)"
                                % (ci, flagged, jumps_in_call, b))

    def prepare(self, eng):
        import inference.deadline as dl
        import inference.inference as inf
        import inference.c_inference as ci
        import inference.tseitin_transformation as tsm
        clock = FakeClock(self.jumps)
        self._saved = [(dl, "perf_counter", dl.perf_counter), (inf, "perf_counter_ns", inf.perf_counter_ns),
                       (ci, "perf_counter_ns", ci.perf_counter_ns), (tsm, "perf_counter_ns", tsm.perf_counter_ns)]
        dl.perf_counter = clock.perf_counter
        inf.perf_counter_ns = clock.perf_counter_ns
        ci.perf_counter_ns = clock.perf_counter_ns
        tsm.perf_counter_ns = clock.perf_counter_ns
        self._clock = clock
        if self.give_up:
            eng.notes["solver_may_give_up"] = True

    def cleanup(self):
        for mod, name, val in getattr(self, "_saved", []):
            setattr(mod, name, val)
        self._saved = []
