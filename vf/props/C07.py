"""C07 Extended semantics: exact and total on every weakly consistent base."""
from .. import ops, drive, lemmas
from ._common import run_cfgs, need_both_answers
from .C03 import cfgs as wl_cfgs


def run(rep, tier, seed):
    ops.setup()
    lemmas.run(rep, ["ext_equals_strict", "chain"], tier)
    pz = [(2, 1), (2, 2), (3, 3)] if tier == "quick" else [(2, 1), (2, 2), (3, 3), (4, 4)]
    cfgs = []
    for system in ("p-entailment", "system-z"):
        cfgs += [dict(system=system, N=N, M=M, pm="", weakly=True) for N, M in pz]
    for system in ("system-w", "lex_inf"):
        cfgs += wl_cfgs(system, "quick", weakly=True)
        if tier != "quick":
            cfgs += [dict(system=system, N=3, M=3, pm="rc2", weakly=True), dict(system=system, N=3, M=4, pm="z3", weakly=True, layers=[0, 1, 1, 2]),
                     dict(system=system, N=3, M=4, pm="rc2", weakly=True, level="L2", layers=[0, 0, 1, 2])]
    run_cfgs(rep, cfgs)
    need_both_answers(rep)
    exc = sum(c.get("results", {}).get("exc", 0) for c in rep.configs)
    rep.witnesses["paths_raising"] = exc
    rep.assumptions.append("every path on which the base is weakly consistent must return a Boolean equal to the extended specification; any exception there is a violation")
    rep.assumptions.append("'extended = strict on strongly consistent bases' follows within the bounds from this check, C01-C04 and the specification lemma ext_equals_strict")
