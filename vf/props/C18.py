"""C18 Ranking-function operations obey their defining laws for every ranking."""
import itertools

from .. import ops, drive, ocf


def run(rep, tier, seed):
    ops.setup()
    quick = tier == "quick"
    for N in (2, 3):
        for mode in ("formula_rank", "acceptance", "conditionalize", "tpo"):
            if N == 3 and (mode == "tpo" or (quick and mode in ("conditionalize", "acceptance"))):
                continue
            drive.run_op(rep, ocf.RankLawHarness(N, mode))
        for k in range(1, N):
            for drop in itertools.combinations(range(N), k):
                drive.run_op(rep, ocf.RankLawHarness(N, "marginalize", drop=list(drop)))
    rep.assumptions.append("ranks are symbolic integers in 0..3 per world (every total rank assignment within that range), formulas arbitrary tables; signatures of 2 (thorough 3) atoms; System Z / c-representation objects inherit the same methods (their ranks are checked by C16/C17)")
    rep.assumptions.append("tpo round trip is checked with layers numbered by position (order preservation); 'exactly the ranks when layers are numbered by their ranks' follows for rank functions that map layer k to the k-th distinct rank")
