"""C09 Every operator satisfies direct inference and the System P postulates (RM for Z, lex)."""
from .. import ops, drive, lemmas, multi, tt
from ..rz3 import Z


def _row(ans):
    r = ans[0]
    if r is None:
        return None, None
    for x in r:
        if not isinstance(x, bool):
            return None, "exception: %s" % (x,)
    return r, None


def implication(name, npre):
    """premises = first npre answers, conclusion = last answer."""
    def prop(ans):
        r, err = _row(ans)
        if err:
            return err
        if r is None:
            return None
        if all(r[:npre]) and not r[-1]:
            return "%s violated: premises %s hold, conclusion does not" % (name, r[:npre])
        return None
    return prop


def rm_prop(ans):
    r, err = _row(ans)
    if err:
        return err
    if r is None:
        return None
    if r[0] and not r[1] and not r[2]:
        return "rational monotony violated: (C|A) holds, (!B|A) does not, yet (C|A,B) fails"
    return None


def postulates(M, h_holder):
    T = tt
    P = []
    P.append(("direct", 0, lambda L: [(L("B%d" % i), L("A%d" % i)) for i in range(M)], implication("direct inference", 0)))
    P.append(("reflexivity", 1, lambda L: [(L("X0"), L("X0"))], implication("reflexivity", 0)))
    P.append(("supraclassical", 2, lambda L: [(T.Or(L("X0"), L("X1")), L("X0"))], implication("supraclassicality", 0)))
    P.append(("right-weakening", 3, lambda L: [(L("X1"), L("X0")), (T.Or(L("X1"), L("X2")), L("X0"))], implication("right weakening", 1)))
    P.append(("and", 3, lambda L: [(L("X1"), L("X0")), (L("X2"), L("X0")), (T.And(L("X1"), L("X2")), L("X0"))], implication("And", 2)))
    P.append(("or", 3, lambda L: [(L("X2"), L("X0")), (L("X2"), L("X1")), (L("X2"), T.Or(L("X0"), L("X1")))], implication("Or", 2)))
    P.append(("cautious-monotony", 3, lambda L: [(L("X1"), L("X0")), (L("X2"), L("X0")), (L("X2"), T.And(L("X0"), L("X1")))], implication("cautious monotony", 2)))
    P.append(("cut", 3, lambda L: [(L("X1"), L("X0")), (L("X2"), T.And(L("X0"), L("X1"))), (L("X2"), L("X0"))], implication("Cut", 2)))
    return P


def run(rep, tier, seed):
    ops.setup()
    lemmas.run(rep, ["direct_inference"], tier)
    quick = tier == "quick"
    systems = [("p-entailment", "", "L1"), ("system-z", "", "L1"), ("system-w", "rc2", "L2"), ("system-w", "z3", "L1"),
               ("lex_inf", "rc2", "L2"), ("lex_inf", "z3", "L1"), ("c-inference", "rc2", "L2")]
    for system, pm, lvl in systems:
        for weakly in (False, True):
            if system == "c-inference" and weakly:
                continue
            bounds = [(2, 2)] if quick else ([(2, 2), (3, 2), (2, 3)] if system in ("p-entailment", "system-z") else ([(2, 2), (3, 2)] if pm == "z3" and not weakly else [(2, 2)]))
            if system == "c-inference" and not quick:
                bounds = [(2, 2), (3, 2)]
            for N, M in bounds:
                P = postulates(M, None)
                if system in ("system-z", "lex_inf"):
                    P.append(("rational-monotony", 3, lambda L: [(L("X2"), L("X0")), (tt.Not(L("X1")), L("X0")), (L("X2"), tt.And(L("X0"), L("X1")))], rm_prop))
                if not weakly:
                    def cp_queries(L):
                        return [(tt.FALSE(), L("X0"))]

                    def mk_cp(hh):
                        def cp(ans):
                            r, err = _row(ans)
                            if err:
                                return err
                            if r is None or not r[0]:
                                return None
                            return ("vc", hh["h"].X[0] != 0, "(Bottom|A) inferred for a satisfiable A")
                        return cp
                    holder = {}
                    P.append(("consistency-preservation", 1, cp_queries, mk_cp(holder)))
                for name, nl, qf, prop in P:
                    if quick and system == "c-inference" and name in ("or", "cut", "cautious-monotony"):
                        continue
                    o = dict(system=system, pm=pm, weakly=weakly, level=lvl)
                    h = multi.MultiHarness("%s: %s/%s %s N=%d M=%d" % (name, system, pm or "-", "ext" if weakly else "strict", N, M),
                                           [o], N, M, max(nl, 1), qf, prop)
                    if name == "consistency-preservation":
                        holder["h"] = h
                    drive.run_op(rep, h)
    # deeper slice for the operators with a tie-breaking recursion: three conditionals
    # (two layers with a two-conditional layer become possible) for And / cautious monotony
    for system, pm, lvl in [("system-w", "rc2", "L2"), ("lex_inf", "rc2", "L2")] + ([] if quick else [("system-w", "z3", "L1"), ("lex_inf", "z3", "L1")]):
        for N, M in [(2, 3)]:
            for name, nl, qf, prop in [x for x in postulates(M, None) if x[0] in (("and", "cautious-monotony") if quick else ("and", "or", "cautious-monotony", "cut", "right-weakening"))]:
                h = multi.MultiHarness("%s: %s/%s strict N=%d M=%d" % (name, system, pm, N, M), [dict(system=system, pm=pm, weakly=False, level=lvl)], N, M, nl, qf, prop)
                drive.run_op(rep, h)
    # Or / And with concrete atoms as antecedents at N=3 (three conditionals in one layer): the
    # fully symbolic three-query product does not finish at N=3, this slice does
    if not quick:
        for system, pm, lvl in [("system-w", "rc2", "L2"), ("lex_inf", "rc2", "L2"), ("system-w", "z3", "L1")]:
            qf = lambda L: [(L("X0"), tt.Symbol("a0")), (L("X0"), tt.Symbol("a1")), (L("X0"), tt.Or(tt.Symbol("a0"), tt.Symbol("a1")))]
            h = multi.MultiHarness("or (atom antecedents): %s/%s strict N=3 M=3" % (system, pm), [dict(system=system, pm=pm, weakly=False, level=lvl)],
                                   3, 3, 1, qf, implication("Or", 2), layers=[0, 0, 0])
            drive.run_op(rep, h)
    # vacuity: rational monotony must FAIL for p-entailment (it is not rational)
    h = multi.MultiHarness("vacuity twin: rational monotony for p-entailment must be refuted N=2 M=2", [dict(system="p-entailment", pm="")], 2, 2, 3,
                           lambda L: [(L("X2"), L("X0")), (tt.Not(L("X1")), L("X0")), (L("X2"), tt.And(L("X0"), L("X1")))], rm_prop)
    from .. import symex
    st = symex.explore(h)
    rep.add_exploration(h.label, st, dict(h.counts), dict(N=2, M=2))
    rep.witnesses["twin_rm_for_p_refuted"] = len(h.viol)
    if not h.viol:
        rep.inconclusive.append("vacuity twin failed: rational monotony for p-entailment was not refuted, the postulate harness cannot see violations")
    rep.assumptions.append("left logical equivalence holds by construction at this level (equivalent formulas have the same truth table); its syntactic side is C12/C15")
    rep.assumptions.append("bounds: N=2,M=2 (thorough also N=3,M=2 and N=2,M=3); postulate formulas are arbitrary tables X0,X1,X2")
