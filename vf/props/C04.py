"""C04 Lexicographic inference answers equal the lexicographic definition, both back-ends."""
from .. import ops, drive, lemmas
from ._common import run_cfgs, need_both_answers
from .C03 import cfgs

SYSTEM = "lex_inf"


def run(rep, tier, seed):
    ops.setup()
    lemmas.run(rep, ["chain"], tier)
    run_cfgs(rep, cfgs(SYSTEM, tier))
    need_both_answers(rep)
    from ._common import lookalike_history
    lookalike_history(rep, SYSTEM, "rc2")
    lookalike_history(rep, SYSTEM, "z3")
    drive.stub_validation(rep, systems=[SYSTEM], limit=30 if tier == "quick" else None)
    rep.assumptions.append("L2 configurations replace OptimizerRC2.minimal_correction_subsets by its specification (justified by C15 part 2); L1 configurations run it on the RC2 stand-in")
