"""C15 CNF encodings are faithful and correction-set enumeration is exact."""
import json
import os
import subprocess

from .. import ops, drive, mcs, concretise

LEVEL = "translation_validation"


def part1(rep, tier):
    """Translation validation of the real tseitin CNFs (genuine stack, separate process)."""
    args = ["2", "2"] if tier == "quick" else ["2", "3"]
    env = dict(os.environ, INFOCF_LOGLEVEL="ERROR")
    p = subprocess.run([concretise.REAL_PY, os.path.join(concretise.VERIF, "vf", "tv_cnf.py")] + args + (["--quick"] if tier == "quick" else []),
                       capture_output=True, text=True, env=env, timeout=7200)
    if p.returncode != 0:
        rep.inconclusive.append("tv_cnf.py failed: %s" % p.stderr[-400:])
        return
    d = json.loads(p.stdout)
    rep.extra["programs"] = d["cnfs"]
    rep.extra["disagreements_checked"] = d["unfaithful"]
    rep.extra["tv"] = {k: d[k] for k in ("formulas", "conditionals", "cnfs", "solver_queries", "unfaithful", "tseitin_s", "tv_s")}
    rep.states += d["cnfs"]
    rep.transitions += d["solver_queries"]
    rep.queries += d["solver_queries"]
    rep.samples.extend(d["samples"][:3])
    rep.functions |= {"inference/tseitin_transformation.py:TseitinTransformation.belief_base_to_cnf",
                      "inference/tseitin_transformation.py:TseitinTransformation.query_to_cnf",
                      "inference/tseitin_transformation.py:TseitinTransformation.goal2intcnf",
                      "inference/tseitin_transformation.py:TseitinTransformation.expr_to_signed_id"}
    rep.note("part 1: %d CNFs of %d conditionals validated with %d solver queries, %d unfaithful" % (d["cnfs"], d["conditionals"], d["solver_queries"], d["unfaithful"]))
    for ex in d["examples"][:3]:
        path = concretise.save_replay(rep.pid, dict(job=None, what="unfaithful CNF (real stack: vf/tv_cnf.py)", **ex))
        rep.violation("CNF of %s for %s is not faithful (%s at %s): %s" % (ex["kind"], ex["conditional"], ex["why"], ex["assignment"], ex["cnf"]), path)


def run(rep, tier, seed):
    part1(rep, tier)
    ops.setup()
    quick = tier == "quick"
    cfgs = [dict(N=2, K=1), dict(N=2, K=2), dict(N=3, K=2), dict(N=2, K=3), dict(N=2, K=2, ignore=[1]),
            dict(N=2, K=2, shapes={("B", 0): "and"}), dict(N=2, K=2, shapes={("A", 0): "or"})]
    if not quick:
        cfgs += [dict(N=3, K=3), dict(N=3, K=3, ignore=[2]), dict(N=2, K=2, shapes={("B", 0): "or_and"}),
                 dict(N=2, K=3, engine="rc2-m22"), dict(N=2, K=2, shapes={("A", 0): "top"}), dict(N=2, K=2, shapes={("B", 1): "or_bot"})]
    for c in cfgs:
        drive.run_op(rep, mcs.McsHarness(**c))
    rep.assumptions.append("part 1: formula set = all conditionals over the closed set of formulas of depth <= 2 over {a,b} (thorough {a,b,c}) and Top/Bottom; the solver quantifies over all assignments and auxiliaries; deeper nestings are outside")
    rep.assumptions.append("part 2: hard part = an arbitrary table (conjunction of two opaque leaves), k <= 3 soft groups; every optimal-model choice of the RC2 stand-in explored")
