"""C01 p-entailment answers equal the definition on every consistent base (strict mode)."""
from .. import ops, drive, lemmas

LEVEL = "model_checking"


def run(rep, tier, seed):
    ops.setup()
    lemmas.run(rep, ["p_ranking_models"], tier)
    bounds = [(3, 1), (3, 2), (3, 3)] if tier == "quick" else [(3, 1), (3, 2), (3, 3), (4, 4), (4, 5)]
    for N, M in bounds:
        h = ops.OpHarness("p-entailment", N, M, pm="", weakly=False)
        drive.run_op(rep, h)
    from ._common import lookalike_history
    lookalike_history(rep, 'p-entailment', '')
    drive.stub_validation(rep, systems=["p-entailment"])
    rep.assumptions.append("bounds: N<=3 atoms-worth of distinguishable worlds, M<=3 conditionals (quick); N<=4, M<=5 (thorough); strict mode; keys 1..M")
