"""C06 Consistency verdicts and tolerance partitions are exact; diagnostics; refusal."""
from .. import ops, drive, lemmas, cons, symex, tt
from ..rz3 import Z


def run(rep, tier, seed):
    R = ops.setup()
    lemmas.run(rep, ["z_is_model", "ext_equals_strict"], tier)
    quick = tier == "quick"
    # (a) partitions, both variants, both modes
    bounds = [(3, 1), (3, 2), (3, 3), (3, 4)] if quick else [(3, 1), (3, 2), (3, 3), (3, 4), (4, 5), (4, 6)]
    for weakly in (False, True):
        for variant in ("objects", "indices"):
            for N, M in bounds:
                if not quick or variant == "objects" or M <= 3:
                    drive.run_op(rep, cons.ConsHarness(N, M, weakly, variant))
    # key presentations (0-based, sparse, descending)
    for keys in ([0, 1, 2], [9, 5, 2]):
        for weakly in (False, True):
            drive.run_op(rep, cons.ConsHarness(3, 3, weakly, "indices", keys=keys))
    # (b) diagnostics with 0..2 facts
    for extended in (False, True):
        for K in (0, 1, 2):
            N, M = (2, 2) if quick else (3, 3)
            drive.run_op(rep, cons.DiagHarness(N, M, K, extended))
    # (c) refusal by every operator class, both modes
    ops_ = [("p-entailment", ""), ("system-z", ""), ("system-w", "rc2"), ("system-w", "z3"),
            ("lex_inf", "rc2"), ("lex_inf", "z3"), ("c-inference", "rc2")]
    for system, pm in ops_:
        for weakly in (False, True):
            if system == "c-inference" and weakly:
                continue
            h = cons.RefusalHarness(system, 2, 2, pm=pm, weakly=weakly, level="L2")
            h.label = "refusal " + h.label
            drive.run_op(rep, h)
            # empty base: concrete run, must be refused
            tt.set_universe(2)
            eng = symex.Engine()
            symex.set_engine(eng)
            eng.pos = 0
            es = R["im"].create_epistemic_state(R["BeliefBase"](["a0", "a1"], {}, "empty"), system, "z3", pm, weakly)
            op = R["im"].create_inference_instance(es)
            try:
                op.preprocess_belief_base(0)
                rep.violation("%s/%s accepts the empty base" % (system, pm), drive.concretise.save_replay(rep.pid, dict(job=None, what="empty base accepted", system=system, pm=pm, weakly=weakly)))
            except AssertionError:
                rep.witnesses["empty_base_refused"] = rep.witnesses.get("empty_base_refused", 0) + 1
    rep.assumptions.append("bounds: partitions N=3 M<=4 (thorough N=4 M<=6), keys 1..M / 0-based / sparse descending; diagnostics N=2 M=2 (thorough N=3 M=3) with <=2 symbolic facts; refusal N=2 M<=2 for the 7 operator/back-end classes x both modes")
