"""C03 System W answers equal the preferred-structure definition, both back-ends."""
from .. import ops, drive, lemmas
from ._common import run_cfgs, need_both_answers

SYSTEM = "system-w"


def cfgs(system, tier, weakly=False):
    out = []
    if tier == "quick":
        out += [dict(system=system, N=2, M=M, pm="rc2", weakly=weakly) for M in (1, 2, 3)]
        out += [dict(system=system, N=3, M=M, pm="z3", weakly=weakly) for M in (1, 2, 3)]
        out += [dict(system=system, N=3, M=3, pm="rc2", weakly=weakly, level="L2")]
        # slices of M=4: a three-conditional layer above / below a one-conditional layer
        out += [dict(system=system, N=3, M=4, pm="rc2", weakly=weakly, level="L2", layers=[0, 1, 1, 1])]
        out += [dict(system=system, N=3, M=4, pm="z3", weakly=weakly, layers=[0, 0, 0, 1])]
        out += [dict(system=system, N=2, M=2, pm="rc2", weakly=weakly, shapes=sh) for sh in ops.const_shape_configs(weakly)[:4]]
        out += [dict(system=system, N=2, M=2, pm="rc2", weakly=weakly, shapes=sh) for sh in ops.struct_shape_configs()[:2]]
        # the same conditional listed twice under different keys (identical formula objects)
        dup = {("A", 1): "same_as_0", ("B", 1): "same_as_0"}
        out += [dict(system=system, N=2, M=3, pm=pm, weakly=weakly, shapes=dup) for pm in ("rc2", "z3")]
        out += [dict(system=system, N=3, M=4, pm="z3", weakly=weakly, shapes=dup, layers=[0, 0, 0, 0])]
    else:
        out += [dict(system=system, N=2, M=M, pm="rc2", weakly=weakly) for M in (1, 2, 3)]
        out += [dict(system=system, N=3, M=3, pm="rc2", weakly=weakly)]
        out += [dict(system=system, N=3, M=M, pm="z3", weakly=weakly) for M in (1, 2, 3)]
        out += [dict(system=system, N=3, M=4, pm="rc2", weakly=weakly, level="L2")]
        out += [dict(system=system, N=3, M=4, pm="z3", weakly=weakly, layers=ly) for ly in ([0, 1, 1, 1], [0, 0, 1, 1], [0, 0, 0, 1], [0, 1, 2, 2])]
        out += [dict(system=system, N=3, M=4, pm="rc2", weakly=weakly, level="L2", layers=[0, 0, 0, 1])]
        out += [dict(system=system, N=2, M=2, pm=pm, weakly=weakly, shapes=sh)
                for sh in ops.const_shape_configs(weakly) + ops.struct_shape_configs() for pm in ("rc2", "z3")]
        out += [dict(system=system, N=2, M=3, pm="rc2-m22", weakly=weakly, level="L2")]
        dup = {("A", 1): "same_as_0", ("B", 1): "same_as_0"}
        out += [dict(system=system, N=3, M=3, pm=pm, weakly=weakly, shapes=dup) for pm in ("rc2", "z3")]
        out += [dict(system=system, N=3, M=4, pm="z3", weakly=weakly, shapes=dup, layers=[0, 0, 0, 0])]
    return out


def run(rep, tier, seed):
    ops.setup()
    lemmas.run(rep, ["chain"], tier)
    run_cfgs(rep, cfgs(SYSTEM, tier))
    need_both_answers(rep)
    from ._common import lookalike_history
    lookalike_history(rep, SYSTEM, "rc2")
    lookalike_history(rep, SYSTEM, "z3")
    drive.stub_validation(rep, systems=[SYSTEM], limit=30 if tier == "quick" else None)
    rep.assumptions.append("L2 configurations replace OptimizerRC2.minimal_correction_subsets by its specification (justified by C15 part 2); L1 configurations run it on the RC2 stand-in")
