"""C17 The c-representation ranking function is a minimal model of the base."""
from .. import ops, drive, lemmas, ocf


def run(rep, tier, seed):
    ops.setup()
    lemmas.run(rep, ["c_between"], tier)
    quick = tier == "quick"
    shapes = [(2, 1), (2, 2), (3, 2)] if quick else [(2, 1), (2, 2), (3, 2), (2, 3), (3, 3)]
    for N, M in shapes:
        drive.run_op(rep, ocf.CRepHarness(N, M, "impacts"))
        drive.run_op(rep, ocf.CRepHarness(N, M, "front"))
    if quick:
        drive.run_op(rep, ocf.CRepHarness(2, 3, "front"))
        drive.run_op(rep, ocf.CRepHarness(2, 3, "impacts"))
    for N, M in ([(2, 2)] if quick else [(2, 2), (3, 2)]):
        drive.run_op(rep, ocf.CRepHarness(N, M, "ranks"))
        if (N, M) == (2, 2):
            drive.run_op(rep, ocf.CRepHarness(N, M, "accept-base"))
            drive.run_op(rep, ocf.CRepHarness(N, M, "query"))
    # the same conditional listed more than once (identical formula objects)
    dup = {("A", 2): "same_as_0", ("B", 2): "same_as_0"}
    drive.run_op(rep, ocf.CRepHarness(2, 3, "ranks", shapes=dup))
    if not quick:
        drive.run_op(rep, ocf.CRepHarness(2, 3, "accept-base", shapes=dup))
    # real optimizer.py under the object (L1) on the smallest shape
    drive.run_op(rep, ocf.CRepHarness(2, 2, "impacts", level="L1"))
    rep.assumptions.append("the impact CSP of a path is concrete; it is optimised by the genuine z3 (only the one Pareto point / the one enumeration order z3 produces is observed); Pareto-minimality and completeness of the front are decided against ALL integer impact vectors (unbounded)")
    rep.assumptions.append("'every query c-inference answers True is accepted' is checked as: the acceptance verdict equals the rank comparison under the object's own impacts, which are a c-representation (so every skeptically entailed query is accepted); conditional keys 1..M (the ranking object addresses impacts by key-1)")
