"""C12 Answers depend only on meaning, not on presentation of the input."""
import itertools

from .. import ops, drive, multi
from .C08 import q_single
from .C11 import same


def run(rep, tier, seed):
    ops.setup()
    quick = tier == "quick"
    systems = [("p-entailment", ""), ("system-z", ""), ("system-w", "rc2"), ("system-w", "z3"),
               ("lex_inf", "rc2"), ("lex_inf", "z3"), ("c-inference", "rc2")]
    for system, pm in systems:
        for weakly in (False, True):
            if system == "c-inference" and weakly:
                continue
            for N, M in ([(2, 2)] if quick else ([(2, 2), (3, 3)] if system in ("p-entailment", "system-z", "system-w", "lex_inf") and not weakly else [(2, 2), (3, 2)])):
                pres = {"keys-0-based": dict(keys=list(range(M))), "keys-sparse": dict(keys=[2, 5, 9][:M]),
                        "keys-descending": dict(keys=list(range(M, 0, -1))), "keys-shuffled-sparse": dict(keys=[7, 0, 3][:M])}
                perms = list(itertools.permutations(range(M)))[1:]
                if quick:
                    perms = perms[:1]
                for pi, perm in enumerate(perms):
                    pres["order-%s" % "".join(map(str, perm))] = dict(order=list(perm))
                spell = {"spelling A0=(A0,Top)": {("A", 0): "and_top"}, "spelling B0=(B0;Bottom)": {("B", 0): "or_bot"},
                         "spelling A0=!!A0": {("A", 0): "dneg"}, "spelling B0=(B0,B0)": {("B", 0): "and_self"}}
                if quick:
                    spell = dict(list(spell.items())[:2]) if pm == "rc2" else {}
                for nm, sh in spell.items():
                    pres[nm] = dict(shapes=sh)
                std = dict(system=system, pm=pm, weakly=weakly, level="L2")
                variants = []
                for nm, pr in pres.items():
                    o = dict(std)
                    o.update(pr)
                    variants.append((nm, o))
                # all presentations against the standard one in one product program per presentation
                for nm, o in variants:
                    h = multi.MultiHarness("%s/%s %s N=%d M=%d: standard = %s" % (system, pm or "-", "ext" if weakly else "strict", N, M, nm),
                                           [std, o], N, M, 2, q_single, same(["standard", nm]))
                    drive.run_op(rep, h)
    # list orders of three conditionals for the operators that iterate over the base while
    # enumerating correction sets
    import itertools as _it
    for system, pm in [("system-w", "rc2"), ("lex_inf", "rc2"), ("c-inference", "rc2")] if quick else []:
        N, M = (3, 3) if system != "c-inference" else (2, 3)
        for perm in [(2, 1, 0), (1, 2, 0)]:
            std = dict(system=system, pm=pm, weakly=False, level="L2")
            o = dict(std, order=list(perm))
            h = multi.MultiHarness("%s/%s strict N=%d M=%d: standard = order-%s" % (system, pm, N, M, "".join(map(str, perm))), [std, o], N, M, 2, q_single, same(["standard", "permuted"]))
            drive.run_op(rep, h)
    # a conditional listed twice (identical formula objects) vs. its second copy re-spelled
    for system, pm in [("lex_inf", "z3"), ("system-w", "z3"), ("lex_inf", "rc2")] + ([] if quick else [("system-w", "rc2"), ("c-inference", "rc2"), ("system-z", ""), ("p-entailment", "")]):
        N, M = (2, 3)
        dup = {("A", 1): "same_as_0", ("B", 1): "same_as_0"}
        o1 = dict(system=system, pm=pm, weakly=False, level="L2", dupshapes=dup)
        o2 = dict(o1, shapes={("B", 1): "and_self"})
        h = multi.MultiHarness("%s/%s strict N=%d M=%d: duplicated conditional = its copy spelled (B,B)" % (system, pm or "-", N, M), [o1, o2], N, M, 2, q_single, same(["duplicate", "re-spelled duplicate"]))
        drive.run_op(rep, h)
    rep.assumptions.append("atom renaming, signature order and unused atoms are invisible to the operators by construction at this level (formulas are truth tables over world classes); they matter only for the ranking objects (C16-C18)")
    rep.assumptions.append("equivalent spellings: table-preserving rewrites with constants / double negation / idempotence on one position; arbitrary rewrites are covered semantically (tables range over all formulas) and syntactically by C15 part 1")
