"""C16 The System Z ranking function equals the Z-ranking and models the base."""
import itertools

from .. import ops, drive, lemmas, ocf


def run(rep, tier, seed):
    ops.setup()
    lemmas.run(rep, ["z_is_model"], tier)
    quick = tier == "quick"
    shapes = [(2, 2)] if quick else [(2, 2), (2, 3), (3, 2)]
    for N, M in shapes:
        W = 2 ** N
        orders = [[W - 1, 0], [1, 2]] if quick else [list(p) for p in itertools.permutations(range(min(W, 4)), 3)][:8]
        for ext in (None, True):
            for K in ((0, 1) if quick else (0, 1, 2)):
                if K and ext is None and False:
                    continue
                for order in orders[: (1 if K else len(orders))]:
                    for force in ((False,) if K else (False, True)):
                        drive.run_op(rep, ocf.ZOcfHarness(N, M, K, ext, order=order, force=force, mode="ranks"))
                for which in range(1, M + 1):
                    drive.run_op(rep, ocf.ZOcfHarness(N, M, K, ext, order=[], mode="accept-base", which=which))
                for order in ([[], [W - 1]] if quick else [[], [W - 1], [1], [W - 1, 1]]):
                    if K and order and quick:
                        continue
                    drive.run_op(rep, ocf.ZOcfHarness(N, M, K, ext, order=order, mode="query"))
        # facts with explicitly strict partitioning (extended=False)
        drive.run_op(rep, ocf.ZOcfHarness(N, M, 1, False, order=[0], mode="ranks"))
    rep.assumptions.append("worlds are concrete bitstrings, base / fact / query formulas symbolic tables; bounds N=2,M=2 (thorough also (2,3),(3,2)), <=2 facts, up to 3 worlds ranked lazily (forced or not) before compute_all_ranks / acceptance")
    rep.assumptions.append("the acceptance verdict is compared with the System Z definition (the operator itself is tied to the same definition by C02/C07)")
