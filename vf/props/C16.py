"""C16 The System Z ranking function equals the Z-ranking and models the base."""
import itertools

from .. import ops, drive, lemmas, ocf


def run(rep, tier, seed):
    ops.setup()
    lemmas.run(rep, ["z_is_model"], tier)
    quick = tier == "quick"
    shapes = [(2, 2)] if quick else [(2, 2), (2, 3)]
    for N, M in shapes:
        W = 2 ** N
        orders = [[W - 1, 0], [1, 2]] if quick else [list(p) for p in itertools.permutations(range(min(W, 4)), 3)][:8]
        for ext in (None, True):
            for K in ((0, 1) if quick or M > 2 else (0, 1, 2)):
                if K and ext is None and False:
                    continue
                for order in orders[: (1 if K else len(orders))]:
                    for force in ((False,) if K else (False, True)):
                        drive.run_op(rep, ocf.ZOcfHarness(N, M, K, ext, order=order, force=force, mode="ranks"))
                for which in range(1, M + 1):
                    drive.run_op(rep, ocf.ZOcfHarness(N, M, K, ext, order=[], mode="accept-base", which=which))
                for order in ([[], [W - 1]] if quick else [[], [W - 1], [1], [W - 1, 1]]):
                    if K and order and (quick or M > 2):
                        continue
                    if M > 2 and (K > 1 or len(order) > 1):
                        continue
                    drive.run_op(rep, ocf.ZOcfHarness(N, M, K, ext, order=order, mode="query"))
        # facts given as strings in project syntax (parsed by the repository): negation binds
        # tighter than ',' which binds tighter than ';'
        S = lambda n: ["sym", n]
        NOT = lambda t: ["not", t]
        strs = [("!a0,a1", ["and", NOT(S("a0")), S("a1")]), ("!a0;a1", ["or", NOT(S("a0")), S("a1")]),
                ("!(a0;a1)", NOT(["or", S("a0"), S("a1")])), ("a1", S("a1")), ("!a1", NOT(S("a1"))), ("!a0,!a1", ["and", NOT(S("a0")), NOT(S("a1"))])]
        for fs in ([[strs[0]], [strs[1]], [strs[2], strs[3]]] if quick else [[x] for x in strs] + [[strs[0], strs[4]], [strs[1], strs[5]]]):
            drive.run_op(rep, ocf.ZOcfHarness(N, M, extended=None, order=[0], mode="ranks", fact_strings=fs))
        # facts with explicitly strict partitioning (extended=False)
        drive.run_op(rep, ocf.ZOcfHarness(N, M, 1, False, order=[0], mode="ranks"))
    rep.assumptions.append("worlds are concrete bitstrings, base / fact / query formulas symbolic tables; bounds N=2,M=2 (thorough also (2,3),(3,2)), <=2 facts, up to 3 worlds ranked lazily (forced or not) before compute_all_ranks / acceptance")
    rep.assumptions.append("the acceptance verdict is compared with the System Z definition (the operator itself is tied to the same definition by C02/C07)")
