"""C13 Answers are independent of batching, history and parallel evaluation."""
import json
import os

from .. import ops, drive, hist, report

DUP = ("C13-duplicate-query-text-last-key",
       "batch with two queries of identical text under different keys (e.g. {7: q0, 9: q0}): both rows report the last key (results are keyed by query text in Inference.inference / InferenceManager.inference)",
       r"row for query key=\S+ text=(\S+) carries key=\S+ text=\1$")


def histories(quick):
    H = {
        "alone-other-repeat": [[(1, 0, "q0")], [(1, 1, "q1")], [(1, 0, "q0")]],
        "batch-then-permuted-arbitrary-keys": [[(1, 0, "q0"), (2, 1, "q1")], [(5, 1, "q1"), (0, 0, "q0")]],
    }
    if not quick:
        H["three-calls-interleaved"] = [[(3, 1, "q1")], [(1, 0, "q0"), (-4, 1, "q1")], [(100, 0, "q0")]]
    return H


def run(rep, tier, seed):
    ops.setup()
    quick = tier == "quick"
    known = report.load_known()
    dup_known = any(k.get("id") == DUP[0] for k in known.get("known", []))
    systems = [("p-entailment", ""), ("system-z", ""), ("system-w", "rc2"), ("system-w", "z3"),
               ("lex_inf", "rc2"), ("lex_inf", "z3"), ("c-inference", "rc2")]
    for system, pm in systems:
        N, M = (2, 1) if system == "c-inference" and quick else (2, 2)
        for weakly in ((False,) if quick or system == "c-inference" else (False, True)):
            for nm, h_ in histories(quick).items():
                drive.run_op(rep, hist.HistHarness(system, pm, weakly, N, M, 2, h_, label="history[%s] %s/%s %s N=%d M=%d sequential" % (nm, system, pm or "-", "ext" if weakly else "strict", N, M)))
            # parallel evaluation (multiprocessing stand-in: isolated workers), plus the fault 'worker hung'
            h_ = histories(True)["batch-then-permuted-arbitrary-keys"]
            drive.run_op(rep, hist.HistHarness(system, pm, weakly, N, M, 2, h_, parallel=True,
                                               label="history[batch-then-permuted-arbitrary-keys] %s/%s %s N=%d M=%d parallel" % (system, pm or "-", "ext" if weakly else "strict", N, M)))
            if system in ("system-z", "system-w") or not quick:
                drive.run_op(rep, hist.HistHarness(system, pm, weakly, N, min(M, 1) if quick else M, 2, [[(5, 1, "q1"), (0, 0, "q0")]], parallel=True, may_hang=True,
                                                   label="history[one batch, arbitrary keys] %s/%s %s parallel, any subset of workers hangs" % (system, pm or "-", "ext" if weakly else "strict")))
            # duplicate query text under different keys
            drive.run_op(rep, hist.HistHarness(system, pm, weakly, N, min(M, 1), 1, [[(7, 0, "q0"), (9, 0, "q0")]],
                                               known_rule=DUP if dup_known else None,
                                               label="history[duplicate text, keys 7 and 9] %s/%s %s" % (system, pm or "-", "ext" if weakly else "strict")))
            # two different queries whose formulas print identically (pysmt truncates str() below depth 5)
            sh = {("QA", 0): "deep6", ("QA", 1): "deep6", ("QB", 1): "same_as_0"}
            drive.run_op(rep, hist.HistHarness(system, pm, weakly, N, min(M, 1) if quick else M, 2, [[(1, 0, "q0")], [(1, 1, "q1"), (2, 0, "q0")]], shapes=sh,
                                               label="history[look-alike deep formulas] %s/%s %s" % (system, pm or "-", "ext" if weakly else "strict")))
    # asked alone or in a batch UNDER A PER-QUERY BUDGET: one budget-expiry event (clock jump at
    # any clock read) may flag at most the query under evaluation, not its batch neighbours
    for system, pm in [("system-w", "rc2"), ("lex_inf", "rc2"), ("c-inference", "rc2")] + ([] if quick else [("system-w", "z3"), ("lex_inf", "z3")]):
        h = hist.BudgetHarness(system, pm, False, 2, 1, 2, [[(1, 0, "q0"), (2, 1, "q1")], [(2, 1, "q1")]], budgets=[dict(inference_timeout=1), dict(inference_timeout=1)], jumps=1, level="L1")
        drive.run_op(rep, h)
    # parallel evaluation with a (never expiring) per-query budget: the worker path builds its own deadline
    for system, pm in [("system-z", ""), ("system-w", "rc2"), ("lex_inf", "z3")] + ([] if quick else [("p-entailment", ""), ("system-w", "z3"), ("lex_inf", "rc2"), ("c-inference", "rc2")]):
        h = hist.BudgetHarness(system, pm, False, 2, 1 if quick else 2, 2, [[(5, 1, "q1"), (0, 0, "q0")]], budgets=[dict(inference_timeout=5)], jumps=0, level="L2", parallel=True)
        drive.run_op(rep, h)
    rep.assumptions.append("parallel evaluation: multiprocessing stand-in runs each worker on a deep copy of the operator (fork isolation); 'hung after join' is a free decision per worker; real scheduling and signal delivery are outside the claim")
    rep.assumptions.append("bounds: one manager, histories of <=3 calls over <=2 symbolic queries, N=2, M<=2")
