"""Shared driver for the operator properties."""
from .. import ops, drive, cinf


def run_cfgs(rep, cfgs):
    for c in cfgs:
        c = dict(c)
        system = c.pop("system")
        if system == "c-inference":
            c.pop("weakly", None)
            h = cinf.CHarness(c.pop("N"), c.pop("M"), **c)
        else:
            h = ops.OpHarness(system, c.pop("N"), c.pop("M"), **c)
        if h.sb.shapes:
            h.label += " shapes=" + ops.shape_name(h.sb.shapes)
        drive.run_op(rep, h)


def need_both_answers(rep):
    t = sum(c.get("results", {}).get("ans_true", 0) for c in rep.configs)
    f = sum(c.get("results", {}).get("ans_false", 0) for c in rep.configs)
    r = sum(c.get("results", {}).get("refused", 0) for c in rep.configs)
    rep.witnesses.update(paths_answering_true=t, paths_answering_false=f, paths_refusing=r)
    if t == 0 or f == 0:
        rep.inconclusive.append("vacuity: no path answered %s" % ("True" if t == 0 else "False"))


def lookalike_history(rep, system, pm, weakly=False):
    """Two different queries whose formulas print identically (pysmt truncates str() of deep
    formulas) asked of one manager: each must still get its own answer."""
    from .. import hist
    sh = {("QA", 0): "deep6", ("QA", 1): "deep6", ("QB", 1): "same_as_0"}
    h = hist.HistHarness(system, pm, weakly, 2, 1, 2, [[(1, 0, "q0")], [(1, 1, "q1"), (2, 0, "q0")]], shapes=sh,
                         label="history[look-alike deep formulas] %s/%s %s N=2 M=1" % (system, pm or "-", "ext" if weakly else "strict"))
    drive.run_op(rep, h)
