"""C19 c-revision returns parameters of a ranking that accepts the new conditionals."""
from .. import ops, drive, crev

L2 = [("lit", "a1", "a0"), ("lit", "!a1", "!a0")]
LO = [("lit", "a1", "a0"), ("opaque",)]
OO = [("opaque",), ("opaque",)]
L3 = [("lit", "a1", "a0"), ("lit", "!a1", "a0"), ("lit", "a0", "!a1")]
LV = [("lit", "a0", "a1"), ("lit", "a1", "!a0")]           # overlapping: worlds verify one and falsify the other


def run(rep, tier, seed):
    ops.setup()
    quick = tier == "quick"
    # (a) reference = fast = incremental compilation, and incremental histories
    for conds in ([L2, LO] if quick else [L2, LO, OO, L3]):
        drive.run_op(rep, crev.CompileHarness(2, conds))
    scripts = [[("add", 1), ("add", 3), ("remove", 1), ("add", 2)], [("add", 2), ("add", 1), ("compile", 0), ("remove", 2)],
               [("add", 1), ("add", 3), ("compile", 0), ("remove", 3), ("compile", 0), ("add", 2), ("remove", 1)], [("add", 1), ("remove", 1), ("add", 1)]]
    for sc in (scripts[:3] if quick else scripts):
        drive.run_op(rep, crev.CompileHarness(2, L2 + [("opaque",)], script=sc))
    # (b) revision results
    cfgs = [dict(conds=L2, gamma_plus_zero=True), dict(conds=L2, gamma_plus_zero=False), dict(conds=LO, gamma_plus_zero=True),
            dict(conds=LO, gamma_plus_zero=False), dict(conds=L2, gamma_plus_zero=True, fixed_minus={1: 2}),
            dict(conds=LO, gamma_plus_zero=True, use_model=True), dict(conds=L2, gamma_plus_zero=False, fixed_plus={2: 1}),
            dict(conds=LV, gamma_plus_zero=True), dict(conds=LV, gamma_plus_zero=False), dict(conds=LV, gamma_plus_zero=True, fixed_minus={1: 2}),
            dict(conds=LV, gamma_plus_zero=False, fixed_plus={1: 1}), dict(conds=LO, gamma_plus_zero=True, fixed_minus={2: 1})]
    if not quick:
        cfgs += [dict(conds=OO, gamma_plus_zero=True), dict(conds=L3, gamma_plus_zero=True), dict(conds=L3, gamma_plus_zero=False),
                 dict(conds=LO, gamma_plus_zero=True, fixed_minus={2: 0})]
    from .. import report
    known = any(k.get("id") == crev.ReviseHarness.KNOWN[0] for k in report.load_known().get("known", []))
    cfgs.append(dict(conds=L3, gamma_plus_zero=False))
    for c in cfgs:
        c = dict(c)
        h = crev.ReviseHarness(2, c.pop("conds"), **c)
        h.known_active = known
        drive.run_op(rep, h)
    rep.assumptions.append("prior rankings: every assignment of ranks 0..2 to the 4 worlds of a 2-atom signature (forked per value where the value enters the CSP); revision conditionals: literal ones (bit-mask fast path) and opaque ones with arbitrary tables (solver fallback), <=2 (thorough 3)")
    rep.assumptions.append("the CSP of a path is concrete and solved by the genuine z3; acceptance, admissibility, 'None only if nothing admissible' and Pareto-minimality of gamma- are decided for every input on the path against all integer parameter vectors")
    rep.assumptions.append("stated plainly: the compile part is close to exhaustive enumeration driven by the engine (the code enumerates worlds itself); the universally quantified part are the existence / minimality queries")
