"""C02 System Z answers equal rank comparison under the Z-ranking (strict mode)."""
from .. import ops, drive, lemmas
from ._common import run_cfgs, need_both_answers


def run(rep, tier, seed):
    ops.setup()
    lemmas.run(rep, ["z_is_model", "chain"], tier)
    bounds = [(3, 1), (3, 2), (3, 3), (4, 4)] if tier == "quick" else [(3, 1), (3, 2), (3, 3), (4, 4), (4, 5)]
    run_cfgs(rep, [dict(system="system-z", N=N, M=M, pm="") for N, M in bounds])
    need_both_answers(rep)
    from ._common import lookalike_history
    lookalike_history(rep, 'system-z', '')
    drive.stub_validation(rep, systems=["system-z"])
    rep.assumptions.append("bounds: (N,M) in %s; strict mode; keys 1..M; opaque formulas" % (bounds,))
