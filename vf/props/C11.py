"""C11 Answers do not depend on the chosen solver back-end."""
from .. import ops, drive, multi, fakes, symex, tt
from .C08 import q_single


def same(names):
    def prop(ans):
        if any(r is None for r in ans) and not all(r is None for r in ans):
            return "back-ends disagree about accepting the base"
        vals = [r[0] for r in ans]
        if any(not isinstance(v, bool) for v in vals):
            return "exception: %s" % (vals,)
        if len(set(vals)) != 1:
            return "answers differ between back-ends %s: %s" % (names, vals)
        return None
    return prop


def run(rep, tier, seed):
    R = ops.setup()
    quick = tier == "quick"
    for system in ("system-w", "lex_inf"):
        for weakly in (False, True):
            cfgs = [(2, 2, "L1"), (3, 3, "L2")] if quick else ([(2, 2, "L1"), (2, 3, "L1"), (3, 3, "L2")] if not weakly else [(2, 2, "L1"), (3, 3, "L2")])
            for N, M, lvl in cfgs:
                ops_ = [dict(system=system, pm="rc2", weakly=weakly, level=lvl), dict(system=system, pm="z3", weakly=weakly)]
                if lvl == "L1":
                    ops_.append(dict(system=system, pm="rc2-mcb", weakly=weakly, level="L1"))
                h = multi.MultiHarness("%s rc2[%s] = z3 %s N=%d M=%d" % (system, lvl, "ext" if weakly else "strict", N, M),
                                       ops_, N, M, 2, q_single, same([o["pm"] for o in ops_]))
                drive.run_op(rep, h)
    # conditionals with multi-clause CNFs (compound positions): the real enumeration code
    # sees several soft clauses per conditional on the rc2 side
    for system in ("system-w", "lex_inf"):
        for sh in ([{("B", 0): "and"}, {("A", 0): "or"}] if quick else [{("B", 0): "and"}, {("A", 0): "or"}, {("B", 0): "or_and"}, {("B", 1): "and", ("A", 0): "or"}]):
            ops_ = [dict(system=system, pm="rc2", level="L1", shapes=sh), dict(system=system, pm="z3", shapes=sh)]
            h = multi.MultiHarness("%s rc2[L1] = z3 strict N=2 M=2 compound %s" % (system, ops.shape_name(sh)), ops_, 2, 2, 2, q_single, same(["rc2", "z3"]))
            drive.run_op(rep, h)
    # c-inference: two independent runs (independent optimal-model choices = different SAT engines)
    for N, M in ([(2, 1), (2, 2)] if quick else [(2, 1), (2, 2), (3, 2)]):
        ops_ = [dict(system="c-inference", pm="rc2"), dict(system="c-inference", pm="rc2-g4")]
        h = multi.MultiHarness("c-inference rc2 = rc2-g4 (independent model choices) N=%d M=%d" % (N, M), ops_, N, M, 2, q_single, same(["rc2", "rc2-g4"]))
        drive.run_op(rep, h)
    # every selectable engine name is accepted by the suffix handling (concrete run)
    names = sorted(fakes._solver_names())
    tt.set_universe(1)
    okn = 0
    bad = []
    Cond, BB = R["Conditional"], R["BeliefBase"]
    for nm in names:
        for system in ("system-w", "lex_inf", "c-inference"):
            eng = symex.Engine()
            symex.set_engine(eng)
            res = []

            def fn(e):
                a = tt.Symbol("a0")
                bb = BB(["a0"], {1: Cond(a, tt.TRUE(), "(a0|Top)")}, "k")
                es = R["im"].create_epistemic_state(bb, system, "z3", "rc2-" + nm, False)
                op = R["im"].create_inference_instance(es)
                op.preprocess_belief_base(0)
                return op.general_inference(Cond(a, tt.TRUE(), "q"))
            try:
                eng.run_all(fn, lambda e, r: res.append(r))
                if res and all(r is True for r in res):
                    okn += 1
                else:
                    bad.append((nm, system, res[:3]))
            except Exception as e:  # noqa: BLE001
                bad.append((nm, system, repr(e)[:100]))
    rep.witnesses["engine_names_accepted"] = okn
    rep.extra["engine_names"] = names
    if bad:
        rep.inconclusive.append("engine-name sweep (stubbed stack): unexpected results %s" % bad[:4])
    rep.assumptions.append("the RC2 stand-in returns an arbitrary optimal model, so one exploration covers every SAT engine that is correct; genuine bugs inside a SAT engine are outside the claim")
    rep.assumptions.append("rc2 back-end at L1 (real optimizer.py on the stand-in) for N=2, at L2 for N=3")
