"""C20 (partial) Saved ranking functions and metadata reload to behaviourally identical objects."""
from .. import ops, drive, persist


def run(rep, tier, seed):
    ops.setup()
    quick = tier == "quick"
    for kind, M in (("system-z", 2), ("custom", 2), ("c-rep", 1 if quick else 2)):
        for prefix in ([[3]] if quick else [[], [3], [0, 2]]):
            drive.run_op(rep, persist.PersistHarness(kind, 2, M, prefix=prefix, may_fail=False))
    for kind, M in (("system-z", 1 if quick else 2), ("c-rep", 1)):
        drive.run_op(rep, persist.PersistHarness(kind, 2, M, prefix=[3], may_fail=True))
    for M in ((2,) if quick else (2, 3)):
        drive.run_op(rep, persist.PersistHarness("c-rep", 2, M, prefix=[], only_impacts=True))
    fails = rep.witnesses.get("failed_saves", 0)
    if not fails:
        rep.inconclusive.append("vacuity: no path with a failing save was explored")
    rep.assumptions.append("PARTIAL CLAIM: wrapper logic and lazy continuation under a faithful-serialiser assumption. pickle/json/pathlib as seen by inference/preocf.py are stand-ins: identity on plain data, the pickle protocol for objects (__getstate__ -> deep copy -> __new__ + __setstate__), each write may fail (free decision: open fails / dump fails mid-way). NOT claimed: fidelity of the real pickle/JSON encoders, reload in a fresh interpreter (re-created pysmt nodes), behaviour of a really unpickled object")
    rep.assumptions.append("checked: save_ocf leaves the in-memory object attribute-for-attribute unchanged (also when it fails) and restores _optimizer/_csp; load_ocf re-adds them; completed ranks, acceptance verdicts, impacts (file and list round trips) equal those of the original (and, for System Z, the definition); metadata round trip and suffix-based format dispatch")
