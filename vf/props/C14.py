"""C14 Time budgets never produce an unflagged wrong answer."""
import itertools

from .. import ops, drive, hist

SYSTEMS = [("p-entailment", "", "L1"), ("system-z", "", "L1"), ("system-w", "rc2", "L1"), ("system-w", "z3", "L1"),
           ("lex_inf", "rc2", "L1"), ("lex_inf", "z3", "L1"), ("c-inference", "rc2", "L1")]
H = [[(1, 0, "q0"), (2, 1, "q1")], [(1, 0, "q0")]]      # a budgeted batch, then a budget-free call on the same manager


def budget(t, p, i):
    b = {}
    if t:
        b["total_timeout"] = t
    if p:
        b["preprocessing_timeout"] = p
    if i:
        b["inference_timeout"] = i
    return b


def run(rep, tier, seed):
    ops.setup()
    quick = tier == "quick"
    # thorough: every budget kind alone with both values, and the mixed settings (a
    # representative subset of the 26 non-trivial combinations of {0,1,5}^3; all 26 did not
    # fit into 50 minutes)
    combos = [(0, 0, 1), (0, 0, 5), (0, 1, 0), (0, 5, 0), (1, 0, 0), (5, 0, 0), (5, 1, 1), (1, 1, 1), (5, 1, 0), (5, 0, 1), (1, 5, 5)]
    if quick:
        per_system = [[(0, 0, 1)], [(5, 1, 1)], [(5, 1, 1), (0, 0, 1)], [(0, 0, 1), (1, 0, 0)], [(1, 0, 0)], [(5, 0, 1)], [(5, 1, 0), (0, 0, 1)]]
    else:
        short = [(0, 0, 1), (0, 1, 0), (1, 0, 0), (5, 1, 1), (5, 0, 1)]
        per_system = [combos if pm != "z3" and system != "c-inference" else short for system, pm, _ in SYSTEMS]
    for (system, pm, lvl), cs in zip(SYSTEMS, per_system):
        for c in cs:
            for weakly in ((False,) if quick or system == "c-inference" or c not in ((0, 0, 1), (5, 1, 1)) else (False, True)):
                M = 1
                h = hist.BudgetHarness(system, pm, weakly, 2, M, 2, H, budgets=[budget(*c), {}], jumps=1 if quick or c != (0, 0, 1) else 2,
                                       give_up=(pm == "z3"), level=lvl)
                drive.run_op(rep, h)
    # two conditionals (two layers possible) for the operators whose recursion descends
    # through the layers while the deadline is polled
    for system, pm, lvl in [SYSTEMS[2], SYSTEMS[4]]:
        h = hist.BudgetHarness(system, pm, False, 2, 2, 1, [[(1, 0, "q0")]], budgets=[budget(0, 0, 1)], jumps=1, level=lvl, layers=[0, 1])
        drive.run_op(rep, h)
    # parallel evaluation under a budget, workers may be declared hung after join
    for system, pm, lvl in ([SYSTEMS[2]] if quick else SYSTEMS):
        h = hist.BudgetHarness(system, pm, False, 2, 1, 2, [[(5, 1, "q1"), (0, 0, "q0")], [(1, 0, "q0")]], budgets=[budget(0, 0, 1), {}], jumps=1,
                               give_up=(pm == "z3"), level=lvl, parallel=True, may_hang=True)
        drive.run_op(rep, h)
    flagged = sum(c.get("results", {}).get("flagged_rows", 0) for c in rep.configs)
    rep.witnesses["rows_flagged_timed_out"] = flagged
    if not flagged:
        rep.inconclusive.append("vacuity: no explored schedule led to a row flagged as timed out")
    rep.assumptions.append("clock stand-in: perf_counter/perf_counter_ns stand still except at <=1 (thorough 2) jump events whose position among the reads and size (1.5 s, 7 s, 10000 s) are free decisions; real wall-clock behaviour and more expiry events are outside the claim")
    rep.assumptions.append("solver give-up: any one z3.Optimize.check() issued under a timeout may answer 'unknown'; model() afterwards either raises or returns a non-optimal model of the hard constraints (both variants explored)")
    rep.assumptions.append("asserted per row: flagged (inference or preprocessing timed out) with answer False, or the definition's answer for its own query; no exception leaves inference(); same for the following budget-free call")
