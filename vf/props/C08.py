"""C08 Operators are ordered by inclusion: p <= Z <= W <= lex and p <= c <= W."""
from .. import ops, drive, lemmas, multi


def q_single(L):
    return [(L("X1"), L("X0"))]


def incl(names):
    def prop(ans):
        if any(r is None for r in ans):
            return "operators disagree about accepting the base: %s" % ([r is not None for r in ans],)
        a, b = ans[0][0], ans[1][0]
        if not isinstance(a, bool) or not isinstance(b, bool):
            return "exception: %s" % ([a, b],)
        if a and not b:
            return "%s infers the query but %s does not" % names
        return None
    return prop


def pairs(weakly):
    P = [("p-entailment", ""), ("system-z", ""), ("system-w", "rc2"), ("system-w", "z3"), ("lex_inf", "rc2"), ("lex_inf", "z3"), ("c-inference", "rc2")]
    p, z, w, wz, l, lz, c = P
    out = [(p, z), (z, w), (z, wz), (w, l), (wz, lz), (w, lz)]
    if not weakly:
        out += [(p, c), (c, w), (c, wz)]
    return out


def run(rep, tier, seed):
    ops.setup()
    lemmas.run(rep, ["chain", "c_between"], tier)
    bounds = [(2, 2), (3, 3)] if tier == "quick" else [(2, 2), (3, 3), (4, 3)]
    for weakly in (False, True):
        for (s1, p1), (s2, p2) in pairs(weakly):
            for N, M in bounds:
                if "c-inference" in (s1, s2) and (N, M) not in ((2, 2), (3, 2), (3, 3)):
                    continue
                if (N, M) == (4, 3) and not (s1 in ("p-entailment", "system-z") and p2 != "z3"):
                    continue        # the wide universe only for the cheap pairs (thorough tier budget)
                if tier == "quick" and "c-inference" in (s1, s2) and (N, M) != (2, 2):
                    N, M = 3, 2
                o1 = dict(system=s1, pm=p1, weakly=weakly, level="L2")
                o2 = dict(system=s2, pm=p2, weakly=weakly, level="L2")
                h = multi.MultiHarness("%s/%s <= %s/%s %s N=%d M=%d" % (s1, p1 or "-", s2, p2 or "-", "ext" if weakly else "strict", N, M),
                                       [o1, o2], N, M, 2, q_single, incl((s1, s2)))
                drive.run_op(rep, h)
    rep.assumptions.append("product program: both operators run on the same symbolic base and query inside one path; rc2 back-ends at stub depth L2")
    rep.assumptions.append("OUTSIDE THE CLAIM: 'bases of any size / shipped corpora with dozens of atoms' - only bases with <=3 conditionals whose formulas distinguish <=8 classes of worlds are decided (running the corpora would be testing, not a solver verdict)")
