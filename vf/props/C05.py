"""C05 c-inference answers equal skeptical inference over all c-representations."""
from .. import ops, drive, lemmas
from ._common import run_cfgs, need_both_answers


def run(rep, tier, seed):
    ops.setup()
    lemmas.run(rep, ["c_between"], tier)
    if tier == "quick":
        cfgs = [dict(system="c-inference", N=2, M=M) for M in (1, 2)]
        cfgs += [dict(system="c-inference", N=3, M=2, level="L2")]
        cfgs += [dict(system="c-inference", N=2, M=2, shapes=sh) for sh in ops.const_shape_configs()[:1]]
    else:
        cfgs = [dict(system="c-inference", N=2, M=M) for M in (1, 2, 3)]
        cfgs += [dict(system="c-inference", N=3, M=2, level="L2"), dict(system="c-inference", N=2, M=3, level="L2")]
        cfgs += [dict(system="c-inference", N=2, M=2, shapes=sh) for sh in ops.const_shape_configs() + ops.struct_shape_configs()[:3]]
    run_cfgs(rep, cfgs)
    need_both_answers(rep)
    from ._common import lookalike_history
    lookalike_history(rep, 'c-inference', 'rc2')
    drive.stub_validation(rep, systems=["c-inference"], limit=12 if tier == "quick" else 40)
    rep.assumptions.append("answer True is checked against ALL non-negative integer impact vectors (unbounded integers); answer False by exhibiting, for every base on the path, a c-representation rejecting the query (CEGIS over witness vectors)")
    rep.assumptions.append("the CSP of a path is concrete and is solved by the genuine z3 (QF_LIA)")
