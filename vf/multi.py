"""Relational properties as product programs (C08, C09, C11, C12): several operators and/or
several related queries are run on ONE symbolic base inside one path; the property is an
assertion over the concrete answers of that path.  Because the answers are concrete on
a path, a failing assertion makes EVERY model of the path condition a counterexample.

(DESIGN.md 2.6 planned decision-tree summaries for these; the product formulation gives
the same solver verdict with a smaller trusted base - no serialised path conditions,
no renaming of environment variables - at the price of more paths.)
"""
from __future__ import annotations

from .rz3 import Z
from . import symex, ops, specs, tt, concretise
from .tt import CTX


class MultiHarness(symex.Harness):
    """operators: list of dicts(system, pm, weakly, level, keys?, order?) - each gets its own
    manager state over the same symbolic base.  queries(L) -> list of (consequent, antecedent)
    formulas built from the leaf factory L(name).  prop(ans) -> None if fine, else a
    message; ans[o][q] is the answer of operator o to query q (True/False), or the tuple
    ('exc', type, msg)."""

    def __init__(self, label, operators, N, M, nleaves, queries, prop, require_accepted=True, max_decisions=6000, layers=None):
        ops.setup()
        self.label, self.operators, self.N, self.M = label, operators, N, M
        self.queries, self.prop = queries, prop
        self.sb = ops.SymBase(N, M, 0)
        self.X = [Z.BitVec("X%d" % i, CTX.W) for i in range(nleaves)]
        self.sb.vars = self.sb.vars + self.X
        A, B, _, _ = self.sb.tables()
        self.spec = specs.BaseSpec(A, B)
        self.max_decisions = max_decisions
        self.layers = layers          # slice: conditional i sits in tolerance layer layers[i]
        if layers:
            self.label += " slice-layers=%s" % (layers,)
        self.reset()

    def reset(self):
        self.counts = {"checked": 0, "refused": 0, "exc": 0, "limit": 0, "ans_true": 0, "ans_false": 0}
        self.viol, self.samples, self.witness = [], [], {}

    def collect(self):
        return dict(counts=self.counts, viol=self.viol, samples=self.samples, witness=self.witness, entered=sorted(ops.ENTERED))

    def merge(self, s):
        for k, v in s["counts"].items():
            self.counts[k] += v
        self.viol.extend(s["viol"])
        self.samples.extend(s["samples"])
        for k, v in s["witness"].items():
            self.witness[k] = self.witness.get(k, 0) + v
        ops.ENTERED.update(s["entered"])

    def mk_engine(self):
        tt.set_universe(self.N)
        pre = []
        if self.layers:
            for i, L in enumerate(self.layers):
                pre.append(Z.And(self.spec.placed[i], self.spec.layer[i] == specs.iv(L)))
        return symex.Engine(assumptions=pre, max_decisions=self.max_decisions)

    def leaf(self, name):
        if name.startswith("X"):
            return tt.Leaf(name, self.X[int(name[1:])])
        if name[0] in "AB":
            return self.sb.side(name[0], int(name[1:]))
        raise KeyError(name)

    def make_base(self, o):
        R = ops.R
        keys = o.get("keys") or list(range(1, self.M + 1))
        order = o.get("order") or list(range(self.M))
        conds = {}
        for pos in order:
            c = R["Conditional"](self.side(o, "B", pos), self.side(o, "A", pos), "c%d" % keys[pos])
            c.index = keys[pos]
            conds[keys[pos]] = c
        return R["BeliefBase"](list(CTX.atom_names), conds, "sym")

    def side(self, o, which, pos):
        """Formula for one side of conditional `pos` as presented to operator o: the same
        truth table, possibly spelled differently (o['shapes'] uses only table-preserving
        shapes such as 'and_top', 'or_bot', 'top_and', 'dneg')."""
        shp = (o.get("shapes") or {}).get((which, pos))
        src = pos
        if (o.get("dupshapes") or {}).get((which, pos)) == "same_as_0":
            src = 0                   # conditional `pos` is a copy of conditional 0
        if not shp:
            if src != pos:
                return tt.Leaf("%s0" % which, {"A": self.sb.A, "B": self.sb.B}[which][0])
            return self.sb.side(which, pos)
        tab = {"A": self.sb.A, "B": self.sb.B}[which][src]
        name = "%s%d" % (which, src)
        if shp == "dneg":
            return tt.Not(tt.Not(tt.Leaf(name, tab)))
        if shp == "and_self":
            return tt.And(tt.Leaf(name, tab), tt.Leaf(name, tab))
        if shp == "or_self":
            return tt.Or(tt.Leaf(name, tab), tt.Leaf(name, tab))
        return ops.build_shape(shp, name, tab, self.sb)

    def run(self, eng):
        R = ops.R
        R["_serial"][0] = 0
        im = R["im"]
        qs = self.queries(self.leaf)
        ans = []
        refused = 0
        from . import l2
        for o in self.operators:
            bb = self.make_base(o)
            es = im.create_epistemic_state(bb, o["system"], "z3", o.get("pm", "rc2") if o["system"] not in ("p-entailment", "system-z") else "", o.get("weakly", False))
            op = im.create_inference_instance(es)
            if o.get("level", "L1") == "L2":
                l2.activate(es)
            row = []
            try:
                try:
                    op.preprocess_belief_base(0)
                except AssertionError:
                    refused += 1
                    ans.append(None)
                    continue
                except Exception as e:  # noqa: BLE001
                    if isinstance(e, symex.Inconclusive):
                        raise
                    ans.append([("exc", type(e).__name__, str(e)[:120])] * len(qs))
                    continue
                for i, (c, a) in enumerate(qs):
                    q = R["Conditional"](c, a, "q%d" % i)
                    try:
                        row.append(op.general_inference(q))
                    except Exception as e:  # noqa: BLE001
                        if isinstance(e, symex.Inconclusive):
                            raise
                        row.append(("exc", type(e).__name__, str(e)[:120]))
                ans.append(row)
            finally:
                l2.deactivate()
        if refused == len(self.operators):
            return ("refused",)
        return ("multi", ans)

    def on_path(self, eng, res):
        if res[0] == "refused":
            self.counts["refused"] += 1
            return
        if res[0] == "limit":
            self.counts["limit"] += 1
            msg = "path exceeded the decision limit (possible non-termination)"
        else:
            self.counts["checked"] += 1
            for row in res[1]:
                for x in (row or []):
                    if x is True:
                        self.counts["ans_true"] += 1
                    elif x is False:
                        self.counts["ans_false"] += 1
            msg = self.prop(res[1])
        cond = Z.BoolVal(True)
        if isinstance(msg, tuple):           # ("vc", z3 condition under which the path is a violation, message)
            cond = msg[1]
            msg = msg[2] if eng.vc(cond) is not None else None
        if msg and len(self.viol) < 30:
            for m in eng.models(cond, self.sb.vars, 3):
                self.viol.append(dict(res=[res[0], _plain(res[1:]), msg], vars={str(v): concretise.model_int(m, v) for v in self.sb.vars}))
        if len(self.samples) < 2 and res[0] == "multi":
            ms = eng.vc(Z.BoolVal(True))
            if ms is not None:
                self.samples.append(dict(config=self.label, answers=_plain(res[1]), tables={str(v): concretise.model_int(ms, v) for v in self.sb.vars}))

    # replay: same operators / queries on the real stack, same assertion
    def replay(self, cand):
        vars_ = cand["vars"]
        tt.set_universe(self.N)
        lv = lambda name: vars_[name]
        qs = self.queries(self.leaf)
        steps = []
        for oi, o in enumerate(self.operators):
            keys = o.get("keys") or list(range(1, self.M + 1))
            order = o.get("order") or list(range(self.M))
            base = []
            for pos in order:
                c = concretise.formula_tree(self.side(o, "B", pos), lv)
                a = concretise.formula_tree(self.side(o, "A", pos), lv)
                base.append([keys[pos], c, a, "(%s|%s)" % (concretise.tree_to_text(c), concretise.tree_to_text(a))])
            steps.append({"op": "manager", "id": "m%d" % oi, "base": base, "system": o["system"],
                          "pmaxsat": o.get("pm", "rc2"), "weakly": o.get("weakly", False)})
            ql = []
            for i, (c, a) in enumerate(qs):
                ct, at = concretise.formula_tree(c, lv), concretise.formula_tree(a, lv)
                ql.append([i + 1, ct, at, "q%d:(%s|%s)" % (i, concretise.tree_to_text(ct), concretise.tree_to_text(at))])
            steps.append({"op": "inference", "mgr": "m%d" % oi, "queries": ql})
        job = {"atoms": list(CTX.atom_names), "steps": steps}
        out = concretise.run_real(job)
        rec = dict(harness=self.label, tables=vars_, job=job, real=out, symbolic_result=cand["res"])
        if "steps" not in out:
            return "error", rec
        ans = []
        for oi in range(len(self.operators)):
            r = out["steps"][2 * oi + 1]
            if "exc" in r:
                if r["exc"][0] == "AssertionError":
                    ans.append(None)
                else:
                    ans.append([("exc", r["exc"][0], r["exc"][1])] * len(qs))
            else:
                ans.append([row[1] for row in r["ok"]])
        rec["observed"] = _plain(ans)
        if all(a is None for a in ans):
            return "not_reproduced", rec
        msg = self.prop(ans)
        if isinstance(msg, tuple):
            sv = Z.Solver()
            for v in self.sb.vars:
                sv.add(v == vars_[str(v)])
            sv.add(msg[1])
            msg = msg[2] if sv.check() == Z.sat else None
        rec["expected"] = "property assertion holds (%s)" % self.label
        rec["assertion"] = msg
        return ("confirmed" if msg else "not_reproduced"), rec


def _plain(x):
    if isinstance(x, (list, tuple)):
        return [_plain(y) for y in x]
    return x
