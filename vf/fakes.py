"""Environment stand-ins (DESIGN.md 2.2): fake `pysmt*`, `z3`, `pysat.examples.rc2` modules.

install() must run before any repository module is imported.  Everything here is the
*environment* of the code under test; each stand-in's contract is listed in DESIGN.md and
in every evidence file (`assumptions`).
"""
from __future__ import annotations

import itertools
import sys
import types

from .rz3 import Z
from . import symex, tt
from .symex import SymBool, Inconclusive
from .tt import F, CTX


class StubGap(Inconclusive):
    """The code under test used a solver feature the stand-ins do not model."""


# =======================================================================================
# arithmetic nodes (pysmt INT terms / constraints) -> genuine z3 terms
# =======================================================================================
class IT:
    """pysmt integer term stand-in."""
    __slots__ = ("e", "sym")

    def __init__(self, e, sym=None):
        self.e = e
        self.sym = sym

    def is_symbol(self):
        return self.sym is not None

    def symbol_name(self):
        return self.sym

    def is_int_constant(self):
        return Z.is_int_value(self.e)

    def constant_value(self):
        return self.e.as_long()

    def __sub__(self, o):
        return IT(self.e - _it(o).e)

    def __add__(self, o):
        return IT(self.e + _it(o).e)

    def __rsub__(self, o):
        return IT(_it(o).e - self.e)

    __radd__ = __add__

    def __mul__(self, o):
        return IT(self.e * _it(o).e)

    def __neg__(self):
        return IT(-self.e)

    def __str__(self):
        return str(self.e)

    __repr__ = __str__


class Cn:
    """pysmt Boolean-over-integers stand-in."""
    __slots__ = ("e",)

    def __init__(self, e):
        self.e = e

    def is_symbol(self):
        return False

    def __str__(self):
        return str(self.e)

    __repr__ = __str__


def _it(x):
    if isinstance(x, IT):
        return x
    if isinstance(x, int):
        return IT(Z.IntVal(x))
    if isinstance(x, symex_int_types()):
        return IT(x.e)
    raise StubGap("integer term expected, got %r" % (type(x),))


def symex_int_types():
    from .symint import SymInt
    return (SymInt,)


class _Type:
    def __init__(self, n):
        self.n = n

    def __repr__(self):
        return self.n

    def is_bool_type(self):
        return self.n == "Bool"

    def is_int_type(self):
        return self.n == "Int"


BOOL = _Type("Bool")
INT = _Type("Int")
REAL = _Type("Real")


def p_Symbol(name, typename=BOOL):
    if typename is INT:
        return IT(Z.Int(name), sym=name)
    if typename is BOOL or typename is None:
        return tt.Symbol(name)
    raise StubGap("Symbol of type %r" % (typename,))


def p_Int(v):
    from .symint import SymInt
    if isinstance(v, SymInt):
        # integer constants of a CSP that the genuine z3 will solve must be concrete:
        # fork over the value (stated range of the SymInt)
        return IT(Z.IntVal(v.concretise()))
    return IT(Z.IntVal(int(v)))


def _args(a):
    return tt._flat(a)


def p_Plus(*a):
    a = _args(a)
    if not a:
        return IT(Z.IntVal(0))
    e = _it(a[0]).e
    for x in a[1:]:
        e = e + _it(x).e
    return IT(e)


def p_Minus(a, b):
    return IT(_it(a).e - _it(b).e)


def p_Times(*a):
    a = _args(a)
    e = _it(a[0]).e
    for x in a[1:]:
        e = e * _it(x).e
    return IT(e)


def p_GE(a, b):
    return Cn(_it(a).e >= _it(b).e)


def p_GT(a, b):
    return Cn(_it(a).e > _it(b).e)


def p_LE(a, b):
    return Cn(_it(a).e <= _it(b).e)


def p_LT(a, b):
    return Cn(_it(a).e < _it(b).e)


def p_Equals(a, b):
    return Cn(_it(a).e == _it(b).e)


def _mixed(kind, a):
    a = _args(a)
    if a and all(isinstance(x, Cn) for x in a):
        es = [x.e for x in a]
        if kind == "and":
            return Cn(Z.And(*es) if es else Z.BoolVal(True))
        return Cn(Z.Or(*es) if es else Z.BoolVal(False))
    if any(isinstance(x, Cn) for x in a):
        # mixture of propositional constants and arithmetic constraints
        es = []
        for x in a:
            if isinstance(x, Cn):
                es.append(x.e)
            elif isinstance(x, F) and isinstance(x.bv, int) and x.kind in ("true", "false"):
                es.append(Z.BoolVal(x.kind == "true"))
            else:
                raise StubGap("mixed propositional / arithmetic connective")
        return Cn(Z.And(*es) if kind == "and" else Z.Or(*es))
    for x in a:
        if not isinstance(x, F):
            raise StubGap("connective over %r" % (type(x),))
    return tt.And(*a) if kind == "and" else tt.Or(*a)


def p_And(*a):
    return _mixed("and", a)


def p_Or(*a):
    return _mixed("or", a)


def p_Not(a):
    if isinstance(a, Cn):
        return Cn(Z.Not(a.e))
    if not isinstance(a, F):
        raise StubGap("Not over %r" % (type(a),))
    return tt.Not(a)


def p_Implies(a, b):
    if isinstance(a, Cn) and isinstance(b, Cn):
        return Cn(Z.Implies(a.e, b.e))
    return tt.Implies(a, b)


def p_Iff(a, b):
    if isinstance(a, Cn) and isinstance(b, Cn):
        return Cn(a.e == b.e)
    return tt.Iff(a, b)


def p_get_free_variables(f):
    if isinstance(f, F):
        return f.get_free_variables()
    raise StubGap("get_free_variables of arithmetic term")


class _Converter:
    def convert(self, f):
        if isinstance(f, F):
            if isinstance(f.bv, int) and f.bv in (0, CTX.FULLI) and symex.ENG is not None and symex.ENG.notes.get("convert_constants"):
                return Z.BoolVal(f.bv != 0)         # propositional constant inside an arithmetic CSP
            return f                # dual object: table + skeleton (see tt.F)
        if isinstance(f, (Cn, IT)):
            return f.e              # genuine z3 term
        raise StubGap("convert(%r)" % (type(f),))


class PSolver:
    """pysmt Solver stand-in: propositional part as table conjunction, arithmetic part
    handed to the genuine z3."""

    def __init__(self, name=None, logic=None, **kw):
        if name is not None and name not in ("z3",):
            raise StubGap("smt solver %r (only z3 is installed)" % (name,))
        self.stack = [([], [])]
        self.converter = _Converter()
        self.last_model = None

    def __enter__(self):
        return self

    def __exit__(self, *a):
        return False

    def exit(self):
        pass

    def push(self, levels=1):
        for _ in range(levels):
            self.stack.append(([], []))

    def pop(self, levels=1):
        for _ in range(levels):
            if len(self.stack) <= 1:
                raise RuntimeError("pop on empty solver stack")      # pysmt raises too
            self.stack.pop()

    def reset_assertions(self):
        self.stack = [([], [])]

    def add_assertion(self, f, named=None):
        if isinstance(f, F):
            self.stack[-1][0].append(f.bv)
        elif isinstance(f, Cn):
            self.stack[-1][1].append(f.e)
        else:
            raise StubGap("add_assertion(%r)" % (type(f),))

    def add_assertions(self, fs):
        for f in fs:
            self.add_assertion(f)

    def _table(self):
        r = CTX.FULLI
        for tabs, _ in self.stack:
            for b in tabs:
                r = tt.t_and(r, b)
        return r

    def solve(self, assumptions=None):
        extra = list(assumptions or [])
        ar = [e for _, cs in self.stack for e in cs]
        tab = self._table()
        for f in extra:
            if isinstance(f, F):
                tab = tt.t_and(tab, f.bv)
            else:
                ar.append(f.e)
        if ar:
            if not isinstance(tab, int):
                raise StubGap("symbolic propositional and arithmetic constraints in one solver")
            if tab == 0:
                return False
            zs = Z.Solver()
            zs.set("timeout", 60000)
            zs.add(*ar)
            r = zs.check()
            if r == Z.unknown:
                raise Inconclusive("z3 unknown on arithmetic CSP")
            self.last_model = zs.model() if r == Z.sat else None
            if symex.ENG is not None:
                symex.ENG.notes["last_arith_model"] = self.last_model
                symex.ENG.notes["last_arith_csp"] = ar
            return r == Z.sat
        nz = tt.t_nonzero(tab)
        if nz is True or nz is False:
            return nz
        return symex.ENG.decide(nz)

    def is_sat(self, f):
        self.push()
        self.add_assertion(f)
        r = self.solve()
        self.pop()
        return r

    def get_model(self):
        raise StubGap("get_model")

    def get_value(self, f):
        if self.last_model is not None and isinstance(f, IT):
            return IT(self.last_model.eval(f.e, model_completion=True))
        raise StubGap("get_value")

    def get_py_value(self, f):
        if self.last_model is not None and isinstance(f, IT):
            return self.last_model.eval(f.e, model_completion=True).as_long()
        raise StubGap("get_py_value")


def p_is_sat(f, solver_name=None, logic=None, portfolio=None):
    s = PSolver()
    s.add_assertion(f)
    return s.solve()


def p_is_unsat(f, solver_name=None, logic=None, portfolio=None):
    return not p_is_sat(f)


def p_is_valid(f, solver_name=None, logic=None, portfolio=None):
    return not p_is_sat(p_Not(f))


class _Factory:
    def all_solvers(self, logic=None):
        return {"z3": PSolver}


class _Env:
    factory = _Factory()


def p_get_env():
    return _Env()


# =======================================================================================
# z3 stand-in
# =======================================================================================
class Val:
    """Result of model.eval on a table formula: a z3 Bool over the model's world."""
    __slots__ = ("e",)

    def __init__(self, e):
        self.e = e

    def __bool__(self):
        raise StubGap("truth value of a z3 model value (use is_true)")


def _all_real(xs):
    return all(isinstance(x, (Z.ExprRef, bool, int)) for x in xs)


def _tabs(xs):
    out = []
    for x in xs:
        if isinstance(x, (list, tuple)):
            out.extend(_tabs(x))
        elif isinstance(x, F):
            out.append(x)
        elif isinstance(x, bool):
            out.append(tt.Bool(x))
        else:
            raise StubGap("table formula expected, got %r" % (type(x),))
    return out


def z_And(*a):
    a = _args(a)
    if a and _all_real(a):
        return Z.And(*a)
    return tt.And(*_tabs(a))


def z_Or(*a):
    a = _args(a)
    if a and _all_real(a):
        return Z.Or(*a)
    return tt.Or(*_tabs(a))


def z_Not(a):
    if isinstance(a, Z.ExprRef):
        return Z.Not(a)
    return tt.Not(_tabs([a])[0])


def z_Implies(a, b):
    if isinstance(a, Z.ExprRef) and isinstance(b, Z.ExprRef):
        return Z.Implies(a, b)
    a, b = _tabs([a, b])
    return tt.Implies(a, b)


def z_BoolVal(v, ctx=None):
    return tt.Bool(bool(v))


def z_is_true(v):
    if isinstance(v, Val):
        return symex.sym_truth(v.e)
    if isinstance(v, F):
        return v.kind == "true"
    return Z.is_true(v)


def z_is_false(v):
    if isinstance(v, Val):
        return symex.sym_truth(Z.Not(v.e))
    if isinstance(v, F):
        return v.kind == "false"
    return Z.is_false(v)


def z_is_or(e):
    return Z.is_or(e) if isinstance(e, Z.ExprRef) else (isinstance(e, F) and e.kind == "or")


def z_is_and(e):
    return Z.is_and(e) if isinstance(e, Z.ExprRef) else (isinstance(e, F) and e.kind == "and")


def z_is_not(e):
    return Z.is_not(e) if isinstance(e, Z.ExprRef) else (isinstance(e, F) and e.kind == "not")


_TACTIC_CACHE = {}


class _Tactic:
    """The genuine z3 tactic, applied to the skeleton of a table formula.  The result of the
    k-th application within a run is memoised per skeleton, so that re-executions of the
    code under test see identical goals (z3 orders literals by AST id, which would make
    re-executions diverge otherwise)."""

    def __init__(self, name, ctx=None):
        self.t = Z.Tactic(name)
        self.name = name

    def __call__(self, goal, *a, **kw):
        if isinstance(goal, F):
            goal = goal.skeleton()
        eng = symex.ENG
        if eng is None or a or kw:
            return self.t(goal, *a, **kw)
        k = eng.notes.get("tactic_calls", 0)
        eng.notes["tactic_calls"] = k + 1
        key = (self.name, k, goal.get_id())
        hit = _TACTIC_CACHE.get(key)
        if hit is None:
            hit = _TACTIC_CACHE[key] = (self.t(goal), goal)   # keep `goal` alive: ids stay unique
        return hit[0]

    apply = __call__


class FModel:
    def __init__(self, w):
        self.w = w

    def eval(self, f, model_completion=False):
        if isinstance(f, F):
            return Val(tt.t_lookup(f.bv, self.w))
        raise StubGap("model.eval(%r)" % (type(f),))

    evaluate = eval

    def __getitem__(self, k):
        return self.eval(k)


class ZOptimize:
    """z3.Optimize stand-in.  Used on table formulas it is a (weighted) MaxSAT oracle over
    worlds: check() = 'the hard constraints have a model', model() = *any* world that
    satisfies them and minimises the weight of falsified soft constraints.  Used on
    genuine z3 terms (integer CSPs) it delegates to the genuine z3.Optimize."""

    def __init__(self, ctx=None):
        self.frames = [([], [])]
        self.real = None
        self.params = {}
        self.last = None
        self.mode = None

    # -- mode handling
    def _real(self):
        if self.mode == "tab":
            raise StubGap("Optimize used on both table formulas and z3 terms")
        if self.real is None:
            self.mode = "real"
            self.real = Z.Optimize()
            self.real.set("timeout", REAL_OPT_LIMIT_S * 1000)
            for k, v in self.params.items():
                if k != "timeout":
                    self.real.set(k, v)
        return self.real

    def _tab(self):
        if self.mode == "real":
            raise StubGap("Optimize used on both table formulas and z3 terms")
        self.mode = "tab"

    def set(self, *a, **kw):
        if a and len(a) == 2:
            kw = dict(kw)
            kw[a[0]] = a[1]
        self.params.update(kw)
        if self.real is not None:
            for k, v in kw.items():
                if k != "timeout":
                    self.real.set(k, v)

    def push(self):
        if self.mode == "real":
            return self.real.push()
        self.frames.append(([], []))

    def pop(self):
        if self.mode == "real":
            return self.real.pop()
        if len(self.frames) <= 1:
            raise Z.Z3Exception("index out of bounds")
        self.frames.pop()

    def add(self, *fs):
        fs = _args(fs)
        if not fs:
            return None
        if all(isinstance(f, Z.ExprRef) for f in fs):
            return self._real().add(*fs)
        self._tab()
        for f in _tabs(fs):
            self.frames[-1][0].append(f.bv)

    assert_exprs = add

    def add_soft(self, f, weight="1", id=None):
        if isinstance(f, Z.ExprRef):
            return self._real().add_soft(f, weight, id)
        self._tab()
        f = _tabs([f])[0]
        try:
            wt = int(weight)
        except Exception:
            raise StubGap("non-integer soft weight")
        self.frames[-1][1].append((f.bv, wt, id))

    def minimize(self, e):
        return self._real().minimize(e)

    def maximize(self, e):
        return self._real().maximize(e)

    def _H(self):
        r = CTX.FULLI
        for hs, _ in self.frames:
            for b in hs:
                r = tt.t_and(r, b)
        return r

    def _soft(self):
        return [s for _, sf in self.frames for s in sf]

    def check(self, *assumptions):
        if self.mode == "real":
            # watchdog: z3's own timeout does not stop every optimisation loop (e.g. an
            # objective that is unbounded below in pareto mode); interrupt after 60 s
            import threading
            timer = threading.Timer(REAL_OPT_LIMIT_S, self.real.ctx.interrupt)
            timer.start()
            try:
                r = self.real.check(*assumptions)
            except Z.Z3Exception as e:
                if "interrupt" in str(e).lower() or "cancel" in str(e).lower():
                    r = Z.unknown
                else:
                    raise
            finally:
                timer.cancel()
            self.last = r
            if r == Z.unknown and symex.ENG is not None:
                symex.ENG.notes["real_optimize_gave_up"] = True
            return r
        if assumptions:
            raise StubGap("Optimize.check with assumptions")
        self._tab()
        if "timeout" in self.params and symex.ENG is not None and symex.ENG.notes.get("solver_may_give_up"):
            log = symex.ENG.notes.setdefault("giveups", [])
            gave_up = symex.sym_truth(symex.ENG.fresh("giveup")) if not any(log) else False
            log.append(bool(gave_up))
            if gave_up:
                self.last = Z.unknown
                return Z.unknown
        nz = tt.t_nonzero(self._H())
        self.last = Z.sat if symex.sym_truth(nz) else Z.unsat
        return self.last

    def reason_unknown(self):
        return "timeout" if self.mode != "real" else self.real.reason_unknown()

    def model(self):
        if self.mode == "real":
            return self.real.model()
        if self.last == Z.unknown:
            # z3 after a cancelled check: either no model at all, or the best model found so
            # far - it satisfies the hard constraints but is not known to be optimal
            H = self._H()
            if symex.sym_truth(symex.ENG.fresh("nomodel")) or not symex.sym_truth(tt.t_nonzero(H)):
                raise Z.Z3Exception("model is not available")
            w = symex.ENG.fresh("w", Z.BitVecSort(max(CTX.N, 1)))
            symex.ENG.add(lambda: tt.t_lookup(H, w))
            return FModel(w)
        if self.last != Z.sat:
            raise Z.Z3Exception("model is not available")
        eng = symex.ENG
        H = self._H()
        soft = [s for s in self._soft() if not (isinstance(s[0], int) and s[0] == CTX.FULLI)]
        w = eng.fresh("w", Z.BitVecSort(max(CTX.N, 1)))

        def assume():
            def cost(val):
                r = _cv(0)
                for b, wt, _ in soft:
                    r = r + Z.If(val(b), _cv(0), _cv(wt))
                return r
            cw = cost(lambda b: tt.t_lookup(b, w))
            cs = [tt.t_lookup(H, w)]
            if CTX.N >= 1 and w.size() > CTX.N:
                cs.append(Z.ULT(w, CTX.W))
            for v in range(CTX.W):
                hv = tt.t_bit(H, v)
                if hv is False:
                    continue
                cv = cost(lambda b: _zb(tt.t_bit(b, v)))
                cs.append(Z.Implies(_zb(hv), Z.UGE(cv, cw)))
            return Z.And(*cs)
        eng.add(assume)
        return FModel(w)

    def objectives(self):
        return self._real().objectives()

    def lower(self, h):
        return self._real().lower(h)

    def upper(self, h):
        return self._real().upper(h)


def _zb(x):
    return Z.BoolVal(x) if isinstance(x, bool) else x


class ZSolver:
    def __init__(self, *a, **kw):
        self.tabs = [[]]
        self.real = None
        self.last = None

    def set(self, *a, **kw):
        if self.real is not None:
            self.real.set(*a, **kw)

    def _real(self):
        if self.real is None:
            if any(self.tabs):
                raise StubGap("Solver used on both table formulas and z3 terms")
            self.real = Z.Solver()
            self.real.set("timeout", 120000)
        return self.real

    def push(self):
        if self.real is not None:
            return self.real.push()
        self.tabs.append([])

    def pop(self, n=1):
        if self.real is not None:
            return self.real.pop(n)
        for _ in range(n):
            self.tabs.pop()

    def add(self, *fs):
        fs = _args(fs)
        if fs and all(isinstance(f, Z.ExprRef) for f in fs):
            return self._real().add(*fs)
        if self.real is not None:
            raise StubGap("Solver used on both table formulas and z3 terms")
        for f in _tabs(fs):
            self.tabs[-1].append(f.bv)

    assert_exprs = add
    append = add
    insert = add

    def check(self, *assumptions):
        if self.real is not None:
            self.last = self.real.check(*assumptions)
            return self.last
        r = CTX.FULLI
        for fr in self.tabs:
            for b in fr:
                r = tt.t_and(r, b)
        for f in _tabs(assumptions):
            r = tt.t_and(r, f.bv)
        self._H = r
        self.last = Z.sat if symex.sym_truth(tt.t_nonzero(r)) else Z.unsat
        return self.last

    def model(self):
        if self.real is not None:
            return self.real.model()
        if self.last != Z.sat:
            raise Z.Z3Exception("model is not available")
        w = symex.ENG.fresh("w", Z.BitVecSort(max(CTX.N, 1)))
        H = self._H
        symex.ENG.add(lambda: tt.t_lookup(H, w))
        return FModel(w)

    def reason_unknown(self):
        return self.real.reason_unknown() if self.real is not None else ""


# =======================================================================================
# PySAT RC2 stand-in
# =======================================================================================
class SymLit:
    """A literal of an RC2 model whose polarity is symbolic."""
    __slots__ = ("var", "val")

    def __init__(self, var, val):
        self.var = var
        self.val = val      # z3 Bool / Python bool: variable is true

    def __eq__(self, o):
        if isinstance(o, int) and not isinstance(o, bool):
            if abs(o) != self.var:
                return False
            v = self.val
            if isinstance(v, bool):
                return v == (o > 0)
            return SymBool(v if o > 0 else Z.Not(v))
        if isinstance(o, SymLit):
            return o is self
        return NotImplemented

    def __ne__(self, o):
        r = self.__eq__(o)
        if r is NotImplemented:
            return r
        return not bool(r)

    def __hash__(self):
        return self.var

    def __abs__(self):
        return self.var

    def __neg__(self):
        v = self.val
        return SymLit(self.var, (not v) if isinstance(v, bool) else Z.Not(v))

    def __int__(self):
        v = self.val
        if isinstance(v, bool):
            return self.var if v else -self.var
        return self.var if symex.sym_truth(v) else -self.var

    __index__ = __int__

    def __gt__(self, o):
        if o == 0:
            return symex.sym_truth(self.val) if not isinstance(self.val, bool) else self.val
        return int(self) > o

    def __lt__(self, o):
        if o == 0:
            return not self.__gt__(0)
        return int(self) < o

    def __repr__(self):
        return "lit(%d)" % self.var


LAST_POOL = [None]


def _install_pool_tracking():
    import pysat.card
    import pysat.formula
    real = pysat.formula.IDPool

    if getattr(real, "__vf_tracked__", False):
        return

    class IDPool(real):
        __vf_tracked__ = True

        def __init__(self, *a, **kw):
            super().__init__(*a, **kw)
            LAST_POOL[0] = self

        def id(self, obj=None):
            LAST_POOL[0] = self
            return super().id(obj)

    IDPool.__name__ = "IDPool"
    pysat.card.IDPool = IDPool
    pysat.formula.IDPool = IDPool


def _solver_names():
    from pysat.solvers import SolverNames
    names = set()
    for k in dir(SolverNames):
        if not k.startswith("_"):
            v = getattr(SolverNames, k)
            if isinstance(v, tuple):
                names.update(v)
    return names


class RC2:
    """PySAT RC2 stand-in.  compute() returns *any* assignment that satisfies the hard
    clauses and minimises the total weight of falsified soft clauses (None iff the hard
    clauses are unsatisfiable).  Variables the id pool maps to a skeleton leaf take the
    value of that leaf's table in one symbolic world; every other variable (Tseitin
    auxiliaries, z3 True/False constants, helper ids) is a free Boolean - exactly what a
    SAT engine sees.  Which optimal model is returned is left open."""

    HELPER_LIMIT = 10

    def __init__(self, formula, solver="g3", adapt=False, exhaust=False, incr=False,
                 minz=False, process=0, trim=0, verbose=0, **kw):
        if solver not in _solver_names():
            from pysat.solvers import NoSuchSolverError
            raise NoSuchSolverError(solver)
        self.hard = [list(c) for c in formula.hard]
        self.soft = [(list(c), int(w)) for c, w in zip(formula.soft, formula.wght)]
        self.cost = 0
        self.engine = solver
        self.pool = LAST_POOL[0]
        self._ccache = {}
        self.nv = getattr(formula, "nv", 0)

    def __enter__(self):
        return self

    def __exit__(self, *a):
        return False

    def delete(self):
        pass

    def add_clause(self, clause, weight=None):
        if weight is None:
            self.hard.append(list(clause))
        else:
            self.soft.append((list(clause), int(weight)))

    # -- interpretation of variables
    def _classify(self):
        vs = set()
        for c in self.hard:
            for l in c:
                vs.add(abs(int(l)))
        for c, _ in self.soft:
            for l in c:
                vs.add(abs(int(l)))
        vs.discard(0)
        leaf, free = {}, []
        id2obj = self.pool.id2obj if self.pool is not None else {}
        for v in sorted(vs):
            o = id2obj.get(v)
            f = None
            if isinstance(o, Z.ExprRef) and Z.is_const(o) and o.decl().kind() == Z.Z3_OP_UNINTERPRETED:
                f = CTX.leaves.get(o.decl().name())
            if f is not None:
                leaf[v] = f
            else:
                free.append(v)
        return sorted(vs), leaf, free

    def compute(self):
        eng = symex.ENG
        vs, leaf, free = self._classify()
        if len(free) > self.HELPER_LIMIT:
            raise Inconclusive("RC2 stand-in: %d free SAT variables exceed the expansion limit" % len(free))
        W = CTX.W
        cache = self._ccache

        def clause_val(c, w, h, key=None):
            # value of clause c in concrete world w with free-variable values h (bools or z3 Bools)
            if key is not None:
                key = (id(c), w, key)
                r = cache.get(key)
                if r is not None:
                    return r[0]
            parts = []
            r = False
            for l in c:
                v = abs(l)
                b = tt.t_bit(leaf[v].bv, w) if v in leaf else h[v]
                if l < 0:
                    b = (not b) if isinstance(b, bool) else Z.Not(b)
                if b is True:
                    r = True
                    break
                if b is not False:
                    parts.append(b)
            if r is not True:
                r = False if not parts else (parts[0] if len(parts) == 1 else Z.Or(*parts))
            if key is not None:
                cache[key] = (r,)
            return r

        def ckey(c, h):
            return tuple(h[abs(l)] for l in c if abs(l) not in leaf)

        def hard_val(w, h, conc):
            parts = []
            for c in self.hard:
                x = clause_val(c, w, h, ckey(c, h) if conc else None)
                if x is False:
                    return False
                if x is not True:
                    parts.append(x)
            if not parts:
                return True
            return parts[0] if len(parts) == 1 else Z.And(*parts)

        def cost_val(w, h, conc):
            const = 0
            parts = []
            for c, wt in self.soft:
                x = clause_val(c, w, h, ckey(c, h) if conc else None)
                if x is False:
                    const += wt
                elif x is not True:
                    parts.append(Z.If(x, _cv(0), _cv(wt)))
            r = _cv(const)
            for p_ in parts:
                r = r + p_
            return r

        combos = []
        anysat = False
        for w in range(W):
            for bits in itertools.product((False, True), repeat=len(free)):
                h = dict(zip(free, bits))
                hv = hard_val(w, h, True)
                if hv is False:
                    continue
                if hv is True:
                    anysat = True
                combos.append((hv, w, h))
        if anysat is not True:
            parts = [hv for hv, _, _ in combos]
            anysat = Z.Or(*parts) if len(parts) > 1 else (parts[0] if parts else False)
        if not symex.sym_truth(anysat):
            return None
        # the returned model: one symbolic world + symbolic values for the free variables
        wv = eng.fresh("w", Z.BitVecSort(max(CTX.N, 1)))
        hsym = {v: eng.fresh("h") for v in free}
        total = sum(wt for _, wt in self.soft)
        cvar = eng.fresh("c", Z.BitVecSort(COSTW))
        if total >= 2 ** COSTW:
            raise Inconclusive("RC2 stand-in: total soft weight %d exceeds the cost width" % total)

        def assume():
            cs = []
            if wv.size() > CTX.N:
                cs.append(wv == 0)
            for w in range(W):
                is_w = wv == Z.BitVecVal(w, wv.size())
                cs.append(Z.Implies(is_w, Z.And(_zb(hard_val(w, hsym, False)),
                                                cvar == cost_val(w, hsym, False))))
            for hv, w, h in combos:          # optimality: no model of the hard part is cheaper
                cs.append(Z.Implies(_zb(hv), Z.UGE(cost_val(w, h, True), cvar)))
            return Z.And(*cs)

        eng.add(assume)
        # concretise the cost (the repository compares it with Python ints)
        cost = None
        for k in range(total + 1):
            if symex.sym_truth(cvar == _cv(k)):
                cost = k
                break
        if cost is None:
            raise symex.Abort()
        self.cost = cost
        model = []
        for v in vs:
            val = tt.t_lookup(leaf[v].bv, wv) if v in leaf else hsym[v]
            if isinstance(val, Z.BoolRef) and Z.is_true(val):
                val = True
            elif isinstance(val, Z.BoolRef) and Z.is_false(val):
                val = False
            model.append(SymLit(v, val))
        return model

    def enumerate(self):
        raise StubGap("RC2.enumerate")


def _zi(x):
    return Z.IntVal(x) if isinstance(x, int) else x


COSTW = 8
REAL_OPT_LIMIT_S = 10


def _cv(n):
    return Z.BitVecVal(n, COSTW)


# =======================================================================================
# module construction
# =======================================================================================
class _FakeModule(types.ModuleType):
    def __init__(self, name, real=None):
        super().__init__(name)
        self.__dict__["__vf_fake__"] = True
        self.__dict__["_real"] = real

    def __getattr__(self, k):
        if k.startswith("__") and k.endswith("__"):
            raise AttributeError(k)
        real = self.__dict__.get("_real")
        if real is not None and hasattr(real, k):
            return getattr(real, k)
        raise StubGapAttr("%s.%s is not modelled by the verification stand-ins" % (self.__name__, k))


class StubGapAttr(AttributeError, StubGap):
    pass


_INSTALLED = [False]


def install():
    if _INSTALLED[0]:
        return
    for m in list(sys.modules):
        if m == "pysmt" or m.startswith("pysmt.") or m == "pysat.examples.rc2":
            raise RuntimeError("vf.fakes.install() must run before %s is imported" % m)
    _install_pool_tracking()

    pysmt = _FakeModule("pysmt")
    pysmt.__path__ = []
    sc = _FakeModule("pysmt.shortcuts")
    for k, v in dict(
        And=p_And, Or=p_Or, Not=p_Not, Implies=p_Implies, Iff=p_Iff, TRUE=tt.TRUE, FALSE=tt.FALSE,
        Bool=tt.Bool, Symbol=p_Symbol, Solver=PSolver, is_sat=p_is_sat, is_unsat=p_is_unsat,
        is_valid=p_is_valid, get_free_variables=p_get_free_variables, get_env=p_get_env,
        Int=p_Int, Plus=p_Plus, Minus=p_Minus, Times=p_Times, GE=p_GE, GT=p_GT, LE=p_LE, LT=p_LT,
        Equals=p_Equals, INT=INT, BOOL=BOOL, REAL=REAL,
    ).items():
        setattr(sc, k, v)
    ty = _FakeModule("pysmt.typing")
    ty.BOOL, ty.INT, ty.REAL = BOOL, INT, REAL
    fn = _FakeModule("pysmt.fnode")

    class FNodeMeta(type):
        def __instancecheck__(cls, obj):
            return isinstance(obj, (F, IT, Cn))

    class FNode(metaclass=FNodeMeta):
        pass

    fn.FNode = FNode
    env = _FakeModule("pysmt.environment")
    env.get_env = p_get_env
    exc = _FakeModule("pysmt.exceptions")

    class SolverReturnedUnknownResultError(Exception):
        pass

    class NoSolverAvailableError(Exception):
        pass

    exc.SolverReturnedUnknownResultError = SolverReturnedUnknownResultError
    exc.NoSolverAvailableError = NoSolverAvailableError
    pysmt.shortcuts, pysmt.typing, pysmt.fnode, pysmt.environment, pysmt.exceptions = sc, ty, fn, env, exc
    sys.modules.update({"pysmt": pysmt, "pysmt.shortcuts": sc, "pysmt.typing": ty, "pysmt.fnode": fn,
                        "pysmt.environment": env, "pysmt.exceptions": exc})

    fz = _FakeModule("z3", real=Z)
    fz.__path__ = []
    for k, v in dict(And=z_And, Or=z_Or, Not=z_Not, Implies=z_Implies, BoolVal=z_BoolVal,
                     is_true=z_is_true, is_false=z_is_false, is_or=z_is_or, is_and=z_is_and,
                     is_not=z_is_not, Tactic=_Tactic, Optimize=ZOptimize, Solver=ZSolver).items():
        setattr(fz, k, v)
    fz.z3 = fz
    sys.modules["z3"] = fz
    sys.modules["z3.z3"] = fz

    import pysat.examples  # genuine package
    rc2 = _FakeModule("pysat.examples.rc2")
    rc2.RC2 = RC2
    rc2.RC2Stratified = RC2
    sys.modules["pysat.examples.rc2"] = rc2
    pysat.examples.rc2 = rc2
    _INSTALLED[0] = True
