#!/venv/bin/python
"""Replay on the REAL stack (genuine pysmt, z3, PySAT; no stand-ins).

Reads a JSON job from stdin, writes a JSON result to stdout.  Run as a separate process
(`/venv/bin/python vf/realrun.py`), never imported into a checking process.

Job: {"atoms": [...], "steps": [step, ...]}  where a step is one of
  {"op": "manager", "id": m, "base": [[key, cons, ante, text], ...], "system": s,
   "pmaxsat": p, "weakly": b, "signature": [...]?}
  {"op": "inference", "mgr": m, "queries": [[key, cons, ante, text], ...], "kw": {...}}
  {"op": "consistency", "base": [...], "weakly": b, "variant": "objects"|"indices"}
  {"op": "call", ...}  (see handlers below)
Formula trees: ["sym", name] ["not", t] ["and", t, ...] ["or", t, ...] ["top"] ["bot"].
Every step yields {"ok": value} or {"exc": [type, message]}.
"""
import json
import os
import sys
import warnings

os.environ.setdefault("INFOCF_LOGLEVEL", "ERROR")
REPO = os.environ.get("VF_REPO", "/repo")
sys.path.insert(0, REPO)
warnings.filterwarnings("ignore")


def main():
    job = json.load(sys.stdin)
    import infocf  # noqa: F401  (import order: avoids a circular-import warning)
    from pysmt.shortcuts import And, Or, Not, Symbol, TRUE, FALSE
    from inference.conditional import Conditional
    from inference.belief_base import BeliefBase
    from inference.queries import Queries
    from inference.inference_manager import InferenceManager

    def form(t):
        k = t[0]
        if k == "sym":
            return Symbol(t[1])
        if k == "not":
            return Not(form(t[1]))
        if k == "and":
            return And([form(x) for x in t[1:]])
        if k == "or":
            return Or([form(x) for x in t[1:]])
        if k == "top":
            return TRUE()
        if k == "bot":
            return FALSE()
        raise ValueError(k)

    def conds(lst):
        d = {}
        for key, c, a, text in lst:
            cd = Conditional(form(c), form(a), text)
            cd.index = key
            d[key] = cd
        return d

    objs = {}
    out = []
    for st in job["steps"]:
        try:
            op = st["op"]
            if op == "manager":
                bb = BeliefBase(st.get("signature", job["atoms"]), conds(st["base"]), st.get("name", "replay"))
                objs[st["id"]] = InferenceManager(bb, st["system"], pmaxsat_solver=st.get("pmaxsat", "rc2"),
                                                  weakly=st.get("weakly", False))
                res = None
            elif op == "inference":
                q = Queries(conds(st["queries"]))
                if st.get("hang"):
                    # fault injection for replays of 'worker hung' schedules: the worker
                    # processes of the listed query keys sleep past the join timeout
                    import time as _t
                    import inference.inference as _inf
                    _orig = _inf.Inference._multi_inference_worker
                    _hang = set(st["hang"])

                    def _slow(self, index, query, d, timeout, _orig=_orig, _hang=_hang):
                        if index in _hang:
                            _t.sleep(60)
                        return _orig(self, index, query, d, timeout)
                    _inf.Inference._multi_inference_worker = _slow
                    try:
                        df = objs[st["mgr"]].inference(q, **st.get("kw", {}))
                    finally:
                        _inf.Inference._multi_inference_worker = _orig
                elif st.get("giveup_at") is not None:
                    # fault injection: the k-th Optimize.check() issued under a solver timeout
                    # gives up (answers unknown without solving), as z3 does when the budget expires
                    import z3 as _z3
                    _ocheck, _oset = _z3.Optimize.check, _z3.Optimize.set
                    _state = {"n": 0, "timed": set()}

                    def _set(self, *a, **k):
                        if "timeout" in k or (a and a[0] == "timeout"):
                            _state["timed"].add(id(self))
                        return _oset(self, *a, **k)

                    def _check(self, *a):
                        if id(self) in _state["timed"]:
                            k = _state["n"]
                            _state["n"] += 1
                            if k == st["giveup_at"]:
                                return _z3.unknown
                        return _ocheck(self, *a)
                    _z3.Optimize.check, _z3.Optimize.set = _check, _set
                    try:
                        df = objs[st["mgr"]].inference(q, **st.get("kw", {}))
                    finally:
                        _z3.Optimize.check, _z3.Optimize.set = _ocheck, _oset
                else:
                    df = objs[st["mgr"]].inference(q, **st.get("kw", {}))
                res = [[_j(r["index"]), bool(r["result"]), bool(r["inference_timed_out"]),
                        bool(r["preprocessing_timed_out"]), str(r["query"])] for _, r in df.iterrows()]
            elif op == "clock":
                # fault injection for replays of budget schedules: a scripted clock that stands
                # still except for the listed jumps [(index of the clock read, size in s)]
                import inference.deadline as _dl
                import inference.inference as _inf2
                import inference.c_inference as _ci
                import inference.tseitin_transformation as _ts

                class _Clock:
                    now, reads, done = 100.0, 0, 0
                    jumps = {int(a): float(b) for a, b in st["jumps"]}

                    @classmethod
                    def tick(cls):
                        cls.reads += 1
                        if cls.reads in cls.jumps:
                            cls.now += cls.jumps[cls.reads]
                            cls.done += 1

                    @classmethod
                    def pc(cls):
                        cls.tick()
                        return cls.now

                    @classmethod
                    def pcns(cls):
                        cls.tick()
                        return int(cls.now * 1e9)
                objs["clock"] = _Clock
                _dl.perf_counter = _Clock.pc
                _inf2.perf_counter_ns = _Clock.pcns
                _ci.perf_counter_ns = _Clock.pcns
                _ts.perf_counter_ns = _Clock.pcns
                res = None
            elif op == "clock_mark":
                res = objs["clock"].done
            elif op == "consistency":
                from inference.consistency_sat import consistency, consistency_indices
                cd = conds(st["base"])
                bb = BeliefBase(job["atoms"], cd, "replay")
                if st.get("variant") == "indices":
                    part, _ = consistency_indices(bb, "z3", st.get("weakly", False))
                    res = part
                else:
                    part, _ = consistency(bb, "z3", st.get("weakly", False))
                    inv = {id(v): k for k, v in cd.items()}
                    res = part if part is False else [[inv[id(c)] for c in layer] for layer in part]
            elif op == "diagnostics":
                from inference.consistency_diagnostics import consistency_diagnostics
                bb = BeliefBase(job["atoms"], conds(st["base"]), "replay")
                facts = [form(f) for f in st.get("facts", [])]
                d = consistency_diagnostics(bb, extended=st["extended"], uses_facts=bool(facts),
                                            facts=facts or None, on_inconsistent="silent")
                res = {k: v for k, v in d.items()}
            elif op == "tseitin":
                from inference.inference_manager import create_epistemic_state
                from inference.tseitin_transformation import TseitinTransformation
                bb = BeliefBase(job["atoms"], conds(st["base"]), "replay")
                es = create_epistemic_state(bb, "system-w", "z3", "rc2", False)
                T = TseitinTransformation(es)
                T.belief_base_to_cnf(True, True, True)
                res = {"v": es["v_cnf_dict"], "f": es["f_cnf_dict"], "nf": es["nf_cnf_dict"]}
            elif op == "exec":
                # escape hatch for harness-specific replays: python source with access to helpers
                env = dict(form=form, conds=conds, objs=objs, job=job, st=st)
                exec(st["src"], env)
                res = env.get("result")
            else:
                raise ValueError("unknown op %r" % op)
            out.append({"ok": res})
        except BaseException as e:  # noqa: BLE001 - report everything, incl. AssertionError
            if isinstance(e, (KeyboardInterrupt, SystemExit)):
                raise
            out.append({"exc": [type(e).__name__, str(e)[:300]]})
    json.dump(out, sys.stdout, default=_j)


def _j(x):
    try:
        import numpy as np
        if isinstance(x, np.generic):
            return x.item()
    except Exception:
        pass
    if isinstance(x, (set, frozenset)):
        return sorted(x)
    return str(x) if not isinstance(x, (int, float, bool, str, type(None), list, dict)) else x


if __name__ == "__main__":
    main()
