"""Decision-replay symbolic executor on z3 (DESIGN.md 2.1).

The code under test runs as ordinary Python.  Whenever it asks for the truth value of a
`SymBool`, `Engine.decide` asks z3 which outcomes are feasible under the current path
condition, takes one and remembers to come back for the other.  A run of the code is
repeated (replaying the recorded decision prefix without solver calls) until no open
decision is left, so on return every feasible path has been executed exactly once.
"""
from __future__ import annotations

import os
import sys
import time
import multiprocessing as mp

from .rz3 import Z


class Cutoff(BaseException):
    """Raised inside a run when the decision depth reaches the split depth (master only)."""


class Abort(BaseException):
    """Path condition became infeasible (a stub added a contradictory assumption)."""


class PathLimit(BaseException):
    """A single path took more decisions than allowed (candidate non-termination)."""


class Inconclusive(Exception):
    """Solver said unknown, or the harness met something it does not model."""


class NonDeterminism(Inconclusive):
    pass


_VF_DIR = os.path.dirname(os.path.abspath(__file__))


def _site():
    f = sys._getframe(2)
    while f is not None:
        fn = f.f_code.co_filename
        if not fn.startswith(_VF_DIR):
            return (fn, f.f_lineno)
        f = f.f_back
    return None


class Frame:
    __slots__ = ("cond", "val", "exhausted", "site", "assumes")

    def __init__(self, cond, val, exhausted, site):
        self.cond = cond
        self.val = val
        self.exhausted = exhausted
        self.site = site
        self.assumes = []


class Engine:
    def __init__(self, assumptions=(), solver_timeout_ms=120000, max_decisions=4000,
                 check_sites=True):
        self.s = Z.Solver()
        self.s.set("timeout", solver_timeout_ms)
        self.pre = list(assumptions)
        for a in self.pre:
            self.s.add(a)
        self.frames: list[Frame] = []
        self.pos = 0
        self.base = 0
        self.forced: list[bool] = []
        self.cutoff = None
        self.checks = 0
        self.paths = 0
        self.decisions = 0
        self.solver_time = 0.0
        self.model = None
        self.max_decisions = max_decisions
        self.vc_timeout_ms = 600000
        self.donate = None
        self.check_sites = check_sites
        self._fresh = 0
        self.pre_assumes = []      # env assumptions made before the first decision
        self.notes = {}            # per-run scratch space for stubs (reset each run)

    # -- solver helpers -----------------------------------------------------------------
    def _check(self, *extra):
        t = time.perf_counter()
        self.checks += 1
        r = self.s.check(*extra)
        self.solver_time += time.perf_counter() - t
        if r == Z.unknown:
            raise Inconclusive("z3 answered unknown: %s" % self.s.reason_unknown())
        return r

    def fresh(self, prefix, sort=None):
        self._fresh += 1
        name = "%s!%d" % (prefix, self._fresh)
        return Z.Bool(name) if sort is None else Z.Const(name, sort)

    def _model_says(self, e):
        if self.model is None:
            return None
        v = self.model.eval(e, model_completion=True)
        if Z.is_true(v):
            return True
        if Z.is_false(v):
            return False
        return None

    # -- environment assumptions (stub contracts) ---------------------------------------
    def add(self, expr):
        """Assume `expr` (a z3 Bool, or a thunk producing one) for the rest of this path."""
        if self.pos < len(self.frames):
            return  # replaying: already asserted in the frame it belongs to
        if callable(expr):
            expr = expr()
        if Z.is_true(expr):
            return
        self.s.add(expr)
        (self.frames[-1].assumes if self.frames else self.pre_assumes).append(expr)
        if self.model is not None and self._model_says(expr) is not True:
            self.model = None

    # -- decisions ----------------------------------------------------------------------
    def decide(self, cond):
        i = self.pos
        if i < len(self.frames):
            fr = self.frames[i]
            if self.check_sites and fr.site is not None:
                st = _site()
                if st != fr.site:
                    raise NonDeterminism("decision %d replayed at %s, recorded at %s" % (i, st, fr.site))
            self.pos += 1
            return fr.val
        if callable(cond):
            cond = cond()
        if Z.is_true(cond):
            return True
        if Z.is_false(cond):
            return False
        self.decisions += 1
        if i >= self.max_decisions:
            raise PathLimit()
        site = _site() if self.check_sites else None
        if i < len(self.forced):           # worker replaying the prefix it was given
            val = self.forced[i]
            self.s.push()
            self.s.add(cond if val else Z.Not(cond))
            self.frames.append(Frame(cond, val, True, site))
            self.model = None
            self.pos += 1
            return val
        if self.cutoff is not None and i >= self.cutoff:
            raise Cutoff()
        mval = self._model_says(cond)
        if mval is None:
            r = self._check()
            if r != Z.sat:
                raise Abort()
            self.model = self.s.model()
            mval = self._model_says(cond)
            if mval is None:
                mval = True if self._check(cond) == Z.sat else False
                self.model = None
        other = Z.Not(cond) if mval else cond
        both = self._check(other) == Z.sat
        self.s.push()
        self.s.add(cond if mval else Z.Not(cond))
        self.frames.append(Frame(cond, mval, not both, site))
        self.pos += 1
        return mval

    # -- path condition -----------------------------------------------------------------
    def pc(self):
        out = list(self.pre) + list(self.pre_assumes)
        for fr in self.frames:
            out.append(fr.cond if fr.val else Z.Not(fr.cond))
            out.extend(fr.assumes)
        return out

    def vc(self, neg):
        """Is PC /\\ neg satisfiable?  Returns a model or None.  Uses a fresh solver: the
        incremental core is an order of magnitude slower on these bit-vector VCs."""
        t = time.perf_counter()
        self.checks += 1
        s = Z.Solver()
        s.set("timeout", self.vc_timeout_ms)
        s.add(*self.pc())
        s.add(neg)
        r = s.check()
        self.solver_time += time.perf_counter() - t
        if r == Z.unknown:
            raise Inconclusive("z3 answered unknown on a verification condition: %s" % s.reason_unknown())
        return s.model() if r == Z.sat else None

    def models(self, neg, variables, k=6):
        """Up to k models of PC /\\ neg that differ on `variables` (diverse concrete
        counterexample candidates for behaviours that depend on solver choices)."""
        s = Z.Solver()
        s.set("timeout", self.vc_timeout_ms)
        s.add(*self.pc())
        s.add(neg)
        out = []
        while len(out) < k and s.check() == Z.sat:
            m = s.model()
            out.append(m)
            s.add(Z.Or(*[v != m.eval(v, model_completion=True) for v in variables]))
        return out

    # -- exploration --------------------------------------------------------------------
    def _backtrack(self):
        while len(self.frames) > self.base and self.frames[-1].exhausted:
            self.frames.pop()
            self.s.pop()
        if len(self.frames) <= self.base:
            return False
        fr = self.frames[-1]
        self.s.pop()
        self.s.push()
        fr.val = not fr.val
        fr.exhausted = True
        fr.assumes = []
        self.s.add(fr.cond if fr.val else Z.Not(fr.cond))
        self.model = None
        return True

    def run_all(self, fn, on_path, max_paths=None):
        """Run fn(engine) on every feasible path; on_path(engine, result) after each.
        Returns (exhaustive, cut_prefixes)."""
        cuts = []
        while True:
            self.pos = 0
            self._fresh = 0
            self.notes = {}
            try:
                res = fn(self)
                cut = False
            except Cutoff:
                cut = True
            except PathLimit:
                res = ("limit",)
                cut = False
            if cut:
                cuts.append([f.val for f in self.frames])
            else:
                if self.pos < len(self.frames):
                    raise NonDeterminism("run ended after %d decisions, %d recorded" % (self.pos, len(self.frames)))
                self.paths += 1
                on_path(self, res)
            if self.donate is not None:
                self.donate(self)
            if not self._backtrack():
                return True, cuts
            if max_paths and self.paths >= max_paths:
                return False, cuts


# ---------------------------------------------------------------------------------------
# symbolic values
# ---------------------------------------------------------------------------------------
ENG: Engine | None = None


def set_engine(e):
    global ENG
    ENG = e


class SymBool:
    """A z3 Bool (or a thunk producing one) whose Python truth value is a decision."""
    __slots__ = ("e",)

    def __init__(self, e):
        self.e = e

    def __bool__(self):
        return ENG.decide(self.e)

    def expr(self):
        if callable(self.e):
            self.e = self.e()
        return self.e


def sym_truth(e):
    """bool(SymBool(e)) with constant folding of Python bools."""
    if e is True or e is False:
        return e
    return ENG.decide(e)


# ---------------------------------------------------------------------------------------
# parallel driver
# ---------------------------------------------------------------------------------------
_JOB = {}


class Harness:
    """Interface the driver needs.  Subclasses keep their results in attributes that
    reset() clears, collect() snapshots (picklable) and merge() folds into the master."""

    def mk_engine(self):
        return Engine()

    def run(self, eng):
        raise NotImplementedError

    def on_path(self, eng, res):
        raise NotImplementedError

    def reset(self):
        pass

    def collect(self):
        return None

    def merge(self, snap):
        pass


def _donor(jobs, pending, idle):
    def donate(eng):
        # give away the other branch of the shallowest open decision while others are idle
        n = idle.value
        if n <= 0:
            return
        for idx in range(eng.base, len(eng.frames)):
            if n <= 0:
                break
            fr = eng.frames[idx]
            if fr.exhausted:
                continue
            prefix = [f.val for f in eng.frames[:idx]] + [not fr.val]
            fr.exhausted = True
            with pending.get_lock():
                pending.value += 1
            jobs.put(prefix)
            n -= 1
    return donate


def _wloop(h, jobs, results, pending, idle, nproc):
    h.reset()
    agg = dict(paths=0, checks=0, decisions=0, solver_time=0.0, jobs=0)
    errs = []
    try:
        while True:
            with idle.get_lock():
                idle.value += 1
            job = jobs.get()
            with idle.get_lock():
                idle.value -= 1
            if job is None:
                break
            eng = h.mk_engine()
            eng.forced = list(job)
            eng.base = len(job)
            eng.donate = _donor(jobs, pending, idle)
            set_engine(eng)
            try:
                eng.run_all(h.run, h.on_path)
            except Inconclusive as e:
                errs.append("%s: %s" % (type(e).__name__, e))
            except Abort:
                errs.append("Abort: infeasible path condition in a donated job")
            agg["jobs"] += 1
            for k in ("paths", "checks", "decisions", "solver_time"):
                agg[k] += getattr(eng, k)
            with pending.get_lock():
                pending.value -= 1
                last = pending.value == 0
            if last:
                for _ in range(nproc):
                    jobs.put(None)
    except BaseException as e:  # noqa: BLE001
        import traceback
        errs.append("worker crashed: %r %s" % (e, traceback.format_exc()[-600:]))
        for _ in range(nproc):
            jobs.put(None)
    results.put(dict(agg=agg, errs=errs, data=h.collect()))


def explore(h, nproc=None, **_ignored):
    """Explore all paths of h.run with `nproc` forked workers that share work by donating
    the open branch nearest to the root whenever another worker is idle.
    Returns a stats dict; the exploration was exhaustive iff stats['errors'] is empty."""
    nproc = nproc or int(os.environ.get("VF_NPROC", "0")) or min(16, os.cpu_count() or 1)
    stats = dict(paths=0, checks=0, decisions=0, solver_time=0.0, jobs=0, nproc=nproc, errors=[])
    t0 = time.perf_counter()
    h.reset()
    if nproc <= 1:
        eng = h.mk_engine()
        set_engine(eng)
        try:
            eng.run_all(h.run, h.on_path)
        except Inconclusive as e:
            stats["errors"].append("%s: %s" % (type(e).__name__, e))
        for k in ("paths", "checks", "decisions", "solver_time"):
            stats[k] += getattr(eng, k)
        stats["jobs"] = 1
        stats["wall"] = time.perf_counter() - t0
        return stats
    ctx = mp.get_context("fork")
    jobs, results = ctx.Queue(), ctx.Queue()
    pending, idle = ctx.Value("i", 1), ctx.Value("i", 0)
    jobs.put([])
    procs = [ctx.Process(target=_wloop, args=(h, jobs, results, pending, idle, nproc), daemon=True) for _ in range(nproc)]
    for p in procs:
        p.start()
    got = []
    import queue as _q
    limit = float(os.environ.get("VF_EXPLORE_TIMEOUT", "3600"))
    while len(got) < nproc:
        try:
            got.append(results.get(timeout=5))
        except _q.Empty:
            if time.perf_counter() - t0 > limit:
                stats["errors"].append("exploration exceeded %.0f s (a worker is stuck?)" % limit)
                for p in procs:
                    if p.is_alive():
                        p.terminate()
                break
            dead = [p for p in procs if not p.is_alive() and p.exitcode not in (0, None)]
            if dead:
                stats["errors"].append("worker process died with exit code %s" % dead[0].exitcode)
                for _ in range(nproc):
                    jobs.put(None)
                break
    for p in procs:
        p.join(timeout=10)
        if p.is_alive():
            p.terminate()
    h.reset()
    for r in got:
        for k in ("paths", "checks", "decisions", "solver_time", "jobs"):
            stats[k] += r["agg"][k]
        stats["errors"].extend(r["errs"])
        h.merge(r["data"])
    if len(got) < nproc:
        stats["errors"].append("only %d of %d workers reported" % (len(got), nproc))
    stats["wall"] = time.perf_counter() - t0
    return stats
