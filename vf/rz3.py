"""The genuine z3 module, captured before any fake is installed in sys.modules."""
import sys

assert "z3" not in sys.modules or getattr(sys.modules["z3"], "__vf_fake__", False) is False, \
    "vf.rz3 must be imported before the fakes are installed"
import z3 as Z  # noqa: E402

Z.set_param("model.completion", True)
