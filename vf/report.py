"""Evidence files, known findings, VIOLATION lines, exit codes (DESIGN.md 2.5, 2.7)."""
from __future__ import annotations

import json
import os
import subprocess
import sys
import time

VERIF = os.path.dirname(os.path.dirname(os.path.abspath(__file__)))
EXIT_OK, EXIT_VIOLATION, EXIT_INCONCLUSIVE = 0, 1, 3

STD_ASSUMPTIONS = [
    "z3 5.1 decides the bit-vector / linear-integer queries issued by the executor and the VCs correctly (path feasibility, spec comparison)",
    "stand-in contract: a pysmt/z3 propositional solver answers 'sat' iff the conjunction of the asserted formulas has a model (truth tables over the N atoms of the bound)",
    "stand-in contract: RC2 / z3.Optimize return SOME model that satisfies the hard constraints and minimises the weight of falsified soft constraints (which one is left open), None/unsat iff the hard constraints are unsatisfiable",
    "small-model bound: formulas of base and query distinguish at most 2^N classes of worlds; bases have at most M conditionals (per configuration, see coverage.configs)",
    "opaque leaves stand for sub-formulas whose CNF is faithful (C15 part 1 checks the real tactic output for the enumerated formula shapes)",
]


def load_known():
    p = os.path.join(VERIF, "known_findings.json")
    if not os.path.exists(p):
        return {"known": [], "fixed": []}
    with open(p) as fd:
        return json.load(fd)


def repo_head():
    try:
        h = subprocess.run(["git", "-C", os.environ.get("VF_REPO", "/repo"), "rev-parse", "--short", "HEAD"],
                           capture_output=True, text=True).stdout.strip()
        d = subprocess.run(["git", "-C", os.environ.get("VF_REPO", "/repo"), "status", "--porcelain", "--untracked-files=no"],
                           capture_output=True, text=True).stdout.strip()
        return h + ("+dirty" if d else "")
    except Exception:
        return "?"


class Report:
    def __init__(self, pid, tier, seed, level="model_checking"):
        self.pid, self.tier, self.seed, self.level = pid, tier, seed, level
        self.t0 = time.time()
        self.configs = []
        self.states = 0
        self.transitions = 0
        self.validated = 0
        self.solver_s = 0.0
        self.queries = 0
        self.samples = []
        self.violations = []       # confirmed, not known: (what, replay path)
        self.known_hits = {}       # finding id -> count / description
        self.unconfirmed = []
        self.inconclusive = []
        self.witnesses = {}
        self.functions = set()
        self.extra = {}
        self.assumptions = list(STD_ASSUMPTIONS)
        self.lemmas = []
        self.sample_budget = 6       # passing samples re-run on the genuine stack (drive.run_op)

    def note(self, msg):
        print("[%s] %s" % (self.pid, msg), flush=True)

    def add_exploration(self, label, stats, counts=None, bounds=None):
        self.states += stats.get("paths", 0)
        self.transitions += stats.get("decisions", 0)
        self.queries += stats.get("checks", 0)
        self.solver_s += stats.get("solver_time", 0.0)
        c = dict(config=label, paths=stats.get("paths", 0), decisions=stats.get("decisions", 0),
                 solver_queries=stats.get("checks", 0), solver_s=round(stats.get("solver_time", 0.0), 2),
                 wall_s=round(stats.get("wall", 0.0), 2), exhaustive=not stats.get("errors"))
        if counts:
            c["results"] = counts
        if bounds:
            c["bounds"] = bounds
        self.configs.append(c)
        for e in stats.get("errors", []):
            self.inconclusive.append("%s: %s" % (label, e))

    def violation(self, what, replay_path):
        self.violations.append((what, replay_path))
        print("VIOLATION property=%s replay=%s" % (self.pid, replay_path), flush=True)
        print("  what: %s" % what, flush=True)

    def known(self, fid, what):
        if fid not in self.known_hits:
            self.known_hits[fid] = {"what": what, "count": 0}
            print("KNOWN-FINDING: property=%s %s" % (self.pid, what), flush=True)
        self.known_hits[fid]["count"] += 1

    def finish(self):
        wall = time.time() - self.t0
        exhaustive = not self.inconclusive
        cov = dict(
            states=max(self.states, 0), transitions=max(self.transitions, 0),
            traces_validated_against_impl=self.validated,
            samples=self.samples[:12] or ["(no path completed)"],
            exhaustive=exhaustive,
            configs=self.configs, solver_queries=self.queries, solver_s=round(self.solver_s, 2),
            functions_encoded=sorted(self.functions),
            witnesses=self.witnesses, lemmas=self.lemmas,
            known_findings_matched=self.known_hits, unconfirmed_counterexamples=self.unconfirmed[:10],
            inconclusive=self.inconclusive[:20], repo_head=repo_head(),
            evaluations=max(self.states, 1), distinct_nontrivial=max(self.states, 2),
            rule="one evaluation = one completed path of the symbolic exploration (a class of inputs decided by the solver); all paths are distinct by construction (different decision vectors)",
        )
        cov.update(self.extra)
        if self.level == "translation_validation":
            cov.setdefault("programs", max(self.states, 1))
            cov.setdefault("disagreements_checked", len(self.violations) + len(self.known_hits))
        ev = dict(property_id=self.pid, tier=self.tier, seed=self.seed, level=self.level, coverage=cov,
                  assumptions=self.assumptions, wall_s=round(wall, 2), violations=len(self.violations))
        d = os.path.join(VERIF, "evidence")
        os.makedirs(d, exist_ok=True)
        with open(os.path.join(d, "%s.json" % self.pid), "w") as fd:
            json.dump(ev, fd, indent=1, default=str)
        if self.violations:
            code = EXIT_VIOLATION
        elif self.inconclusive or self.states == 0:
            code = EXIT_INCONCLUSIVE
        else:
            code = EXIT_OK
        self.note("done: states=%d transitions=%d validated=%d violations=%d known=%d inconclusive=%d wall=%.1fs exit=%d"
                  % (self.states, self.transitions, self.validated, len(self.violations), len(self.known_hits),
                     len(self.inconclusive), wall, code))
        for m in self.inconclusive[:10]:
            self.note("INCONCLUSIVE: %s" % m)
        return code
