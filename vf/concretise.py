"""Turning solver models into ordinary inputs and replaying them on the real stack."""
from __future__ import annotations

import hashlib
import itertools
import json
import os
import subprocess
import sys

from .rz3 import Z
from .tt import CTX, F

VERIF = os.path.dirname(os.path.dirname(os.path.abspath(__file__)))
REAL_PY = os.environ.get("VF_REAL_PY", "/venv/bin/python")


def table_to_tree(t, names=None, const="spelled"):
    """Concrete table -> formula tree.  Constant tables are spelled `a;!a` / `a,!a` unless
    const == 'literal' (then Top / Bottom)."""
    names = names or CTX.atom_names
    n = len(names)
    W = 2 ** n
    full = (1 << W) - 1
    t &= full
    if t == full:
        if const == "literal" or n == 0:
            return ["top"]
        return ["or", ["sym", names[0]], ["not", ["sym", names[0]]]]
    if t == 0:
        if const == "literal" or n == 0:
            return ["bot"]
        return ["and", ["sym", names[0]], ["not", ["sym", names[0]]]]
    cubes = []
    for k in range(0, n + 1):
        for pos in itertools.combinations(range(n), k):
            for vals in itertools.product((0, 1), repeat=k):
                m = 0
                for w in range(W):
                    if all(((w >> p) & 1) == v for p, v in zip(pos, vals)):
                        m |= 1 << w
                if m & ~t == 0:
                    cubes.append((m, pos, vals))
    cover, rest = [], t
    while rest:
        best = max(cubes, key=lambda c: (bin(c[0] & rest).count("1"), -len(c[1])))
        cover.append(best)
        rest &= ~best[0]
    parts = []
    for m, pos, vals in cover:
        lits = [["sym", names[p]] if v else ["not", ["sym", names[p]]] for p, v in zip(pos, vals)]
        parts.append(lits[0] if len(lits) == 1 else ["and"] + lits)
    return parts[0] if len(parts) == 1 else ["or"] + parts


def tree_to_text(t):
    k = t[0]
    if k == "sym":
        return t[1]
    if k == "top":
        return "Top"
    if k == "bot":
        return "Bottom"
    if k == "not":
        s = tree_to_text(t[1])
        return "!" + (s if t[1][0] in ("sym", "top", "bot", "not") else "(" + s + ")")
    if k == "and":
        return ",".join(tree_to_text(x) if x[0] != "or" else "(" + tree_to_text(x) + ")" for x in t[1:])
    if k == "or":
        return ";".join(tree_to_text(x) for x in t[1:])
    raise ValueError(k)


def tree_table(t, names=None):
    names = names or CTX.atom_names
    n = len(names)
    W = 2 ** n
    full = (1 << W) - 1
    k = t[0]
    if k == "sym":
        i = names.index(t[1])
        r = 0
        for w in range(W):
            if (w >> i) & 1:
                r |= 1 << w
        return r
    if k == "top":
        return full
    if k == "bot":
        return 0
    if k == "not":
        return full & ~tree_table(t[1], names)
    if k == "and":
        r = full
        for x in t[1:]:
            r &= tree_table(x, names)
        return r
    if k == "or":
        r = 0
        for x in t[1:]:
            r |= tree_table(x, names)
        return r
    raise ValueError(k)


def formula_tree(f: F, leafval, const="spelled"):
    """Tree of a stand-in formula; leafval(name) gives the concrete table of a leaf."""
    k = f.kind
    if k == "sym":
        return ["sym", f.name]
    if k == "leaf":
        return table_to_tree(leafval(f.name), const=const)
    if k == "true":
        return ["top"]
    if k == "false":
        return ["bot"]
    if k == "not":
        return ["not", formula_tree(f.args[0], leafval, const)]
    if k in ("and", "or"):
        return [k] + [formula_tree(a, leafval, const) for a in f.args]
    if k == "implies":
        return ["or", ["not", formula_tree(f.args[0], leafval, const)], formula_tree(f.args[1], leafval, const)]
    raise ValueError(k)


def model_int(m, v):
    x = m.eval(v, model_completion=True)
    return x.as_long()


def run_real(job, timeout=300):
    """Run a job (see realrun.py) on the genuine stack in a fresh interpreter."""
    env = dict(os.environ)
    env["INFOCF_LOGLEVEL"] = "ERROR"
    env.pop("INFOCF_VERIF", None)
    try:
        p = subprocess.run([REAL_PY, os.path.join(VERIF, "vf", "realrun.py")], input=json.dumps(job),
                           capture_output=True, text=True, timeout=timeout, env=env, cwd="/")
    except subprocess.TimeoutExpired:
        return {"timeout": timeout}
    if p.returncode != 0:
        return {"crash": p.stderr[-2000:]}
    try:
        return {"steps": json.loads(p.stdout)}
    except Exception:
        return {"crash": "unparsable output: " + p.stdout[-500:] + p.stderr[-500:]}


def save_replay(pid, record):
    d = os.path.join(VERIF, "replays")
    os.makedirs(d, exist_ok=True)
    blob = json.dumps(record, sort_keys=True, indent=1, default=str)
    h = hashlib.sha1(blob.encode()).hexdigest()[:10]
    path = os.path.join(d, "%s-%s.json" % (pid, h))
    with open(path, "w") as fd:
        fd.write(blob)
    return path
