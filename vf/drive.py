"""Glue between harnesses and reports: explore, replay candidates, classify."""
from __future__ import annotations

import csv
import os

from . import symex, ops, concretise, report
from .rz3 import Z

MAX_REPLAYS = int(os.environ.get("VF_MAX_REPLAYS", "4"))


def run_op(rep, h, nproc=None, bounds=None, replay_fn=None):
    """Explore harness h, replay candidate counterexamples, record in rep."""
    stats = symex.explore(h, nproc=nproc)
    b = dict(N=h.N, M=h.M)
    known_preds = h.known_preds() if hasattr(h, "known_preds") else []
    if replay_fn is None and hasattr(h, "replay"):
        replay_fn = lambda hh, c: hh.replay(c)
    b.update(bounds or {})
    rep.add_exploration(h.label, stats, dict(h.counts), b)
    rep.functions |= ops.ENTERED
    rep.samples.extend(h.samples[:1])
    for k, v in h.witness.items():
        if k.startswith("known:"):
            fid = k[6:]
            what = next((w for f, w, _ in known_preds if f == fid), fid)
            rep.known(fid, what)
            rep.known_hits[fid]["count"] += v - 1
        else:
            rep.witnesses[k] = rep.witnesses.get(k, 0) + v
    # routine validation of the stand-ins against the implementation: a passing sample of
    # this exploration (concrete input + predicted result) is pushed through the genuine
    # stack; the same assertion must hold there (budget: a few samples per check)
    if not h.viol and getattr(rep, "sample_budget", 0) > 0 and h.samples and not getattr(h, "no_sample_validation", False) and not known_preds and (replay_fn or hasattr(h, "replay") or isinstance(h, ops.OpHarness)):
        sm = h.samples[0]
        cand = dict(res=sm.get("result", sm.get("answers")), vars=sm["tables"], hung=[], giveups=[], clock=None)
        try:
            fn0 = replay_fn or (ops.judge_replay if isinstance(h, ops.OpHarness) and not hasattr(h, "replay") else (lambda hh, c: hh.replay(c)))
            status, rec = fn0(h, cand)
        except Exception as e:  # noqa: BLE001
            status, rec = "error", {"observed": repr(e)[:200]}
        rep.sample_budget -= 1
        if status == "not_reproduced":
            rep.validated += 1
        elif status == "confirmed":
            path = concretise.save_replay(rep.pid, rec)
            rep.violation("%s: a sampled input violates the property on the real stack although the symbolic run predicted otherwise: %s" % (h.label, rec.get("observed")), path)
        else:
            rep.extra.setdefault("sample_validation_errors", []).append(dict(harness=h.label, observed=str(rec.get("observed"))[:300]))
    rep.note("%s: paths=%d decisions=%d viol_candidates=%d wall=%.1fs %s" % (
        h.label, stats["paths"], stats["decisions"], len(h.viol), stats["wall"], dict(h.counts)))
    from . import cinf as _cinf
    needs_twin = isinstance(h, ops.OpHarness) and (h.expected() is not None or (isinstance(h, _cinf.CHarness) and h.counts.get("ans_false", 0) > 0))
    if needs_twin and h.counts.get("ans_true", 0) + h.counts.get("ans_false", 0) > 0 \
            and not h.witness.get("twin_negated_spec_detected"):
        rep.inconclusive.append("%s: vacuity twin (negated specification) was not refuted on any path" % h.label)
    if not h.viol:
        return stats
    # replay distinct candidates (distinct by result kind first, then arbitrary)
    seen, todo = set(), []
    for c in h.viol:
        k = repr(c["res"][:2])[:200]
        if k not in seen:
            seen.add(k)
            todo.append(c)
    for c in h.viol:
        if len(todo) >= MAX_REPLAYS:
            break
        if c not in todo:
            todo.append(c)
    confirmed = 0
    fn = replay_fn or ops.judge_replay
    tried = 0
    rest = [c for c in h.viol if c not in todo]
    while todo:
        c = todo.pop(0)
        tried += 1
        status, rec = fn(h, c)
        rep.validated += 1
        if status != "confirmed" and hasattr(h, "replay_variants"):
            # the symbolic run quantifies over the solver's choices (any optimal model);
            # a concrete replay fixes one SAT engine - try the other selectable engines
            for variant in h.replay_variants():
                status, rec = fn(h, dict(c, variant=variant))
                rep.validated += 1
                if status == "confirmed":
                    break
        if status == "confirmed":
            confirmed += 1
            path = concretise.save_replay(rep.pid, rec)
            rep.violation("%s: code %s, definition says %s" % (h.label, rec.get("observed"), rec.get("expected")), path)
        else:
            rep.unconfirmed.append(dict(harness=h.label, candidate=c, status=status, observed=rec.get("observed"),
                                        expected=rec.get("expected"), real=rec.get("real") if status == "error" else None))
            if confirmed == 0 and rest and tried < 12:
                todo.append(rest.pop(0))      # keep looking for a reproducible instance
    if confirmed == 0 and hasattr(h, "replay_steps"):
        # last resort for behaviours that depend on WHICH optimal model the SAT engine
        # returns: all candidates x all usable engines in one real-stack process
        pairs = [(c, v) for c in h.viol[:40] for v in [None] + list(h.replay_variants())]
        steps, index = [], []
        for c, v in pairs:
            st = h.replay_steps(c, v)
            index.append((len(steps), len(st)))
            steps.extend(st)
        out = concretise.run_real({"atoms": list(ops.CTX.atom_names), "steps": steps}, timeout=900)
        rep.validated += len(pairs)
        if "steps" in out:
            for (c, v), (a, n) in zip(pairs, index):
                status, rec = h.replay_judge(c, v, out["steps"][a:a + n], steps[a:a + n])
                if status == "confirmed":
                    confirmed += 1
                    path = concretise.save_replay(rep.pid, rec)
                    rep.violation("%s: code %s, definition says %s" % (h.label, rec.get("observed"), rec.get("expected")), path)
                    break
    if confirmed == 0:
        rep.inconclusive.append("%s: %d counterexample candidate(s) from the symbolic run did not reproduce on the real stack with any SAT engine tried (harness/stand-in error, or a behaviour no installed engine exhibits)" % (h.label, tried))
    return stats


# -- stub validation on the shipped regression rows ---------------------------------------
def stub_validation(rep, systems=None, max_atoms=4, limit=None, max_paths=24):
    """Push the repository's own regression inputs (small signatures) through the stubbed
    stack with constant tables; answers must equal the stored expectation (which the
    real stack reproduces in the repository's own test-suite)."""
    from . import tt
    R = ops.setup()
    repo = ops.REPO
    path = os.path.join(repo, "unittests", "example_testing_results_small.csv")
    n_ok = n_bad = 0
    bad = []
    groups = {}
    with open(path) as fd:
        for row in csv.DictReader(fd):
            if systems and row["inference_system"] not in systems:
                continue
            if int(row["signature_size"]) > max_atoms:
                continue
            groups.setdefault((row["belief_base_filepath"], row["queries_filepath"], row["inference_system"]), []).append(row)
    from parser.Wrappers import parse_belief_base, parse_queries
    done = 0
    npaths = 0
    skipped = []
    for (bbf, qf, system), rows in sorted(groups.items()):
        if limit and done >= limit:
            break
        text = open(os.path.join(repo, bbf)).read()
        sig = _signature_of(text)
        tt.set_universe(len(sig), sig)
        try:
            bb = parse_belief_base(os.path.join(repo, bbf))
            qs = parse_queries(os.path.join(repo, qf))
        except symex.Inconclusive:
            continue    # queries over atoms outside the base's signature: outside this universe
        for pm in (["rc2", "z3"] if system in ("system-w", "lex_inf") else ["rc2"]):
            results = []

            def fn(eng):
                ops.R["_serial"][0] = 0
                mgr = R["im"].InferenceManager(bb, system, pmaxsat_solver=pm)
                df = mgr.inference(qs)
                return {str(r["query"]): bool(r["result"]) for _, r in df.iterrows()}

            eng = symex.Engine()
            symex.set_engine(eng)
            try:
                eng.run_all(fn, lambda e, r: results.append(r), max_paths=max_paths)
            except symex.Inconclusive as e:
                skipped.append("%s %s %s: %s" % (bbf, system, pm, str(e)[:80]))
                continue
            npaths += len(results)
            for row in rows:
                exp = row["result"] == "True"
                q = row["query"]
                if not results or q not in results[0]:
                    continue
                done += 1
                if all(g[q] == exp for g in results):
                    n_ok += 1
                else:
                    n_bad += 1
                    bad.append((bbf, q, system, pm, [g[q] for g in results][:4], exp))
    rep.validated += n_ok
    rep.extra["stub_validation"] = dict(rows_agreeing=n_ok, rows_disagreeing=n_bad, paths=npaths, examples=bad[:5], skipped_beyond_stub_reach=skipped[:20])
    if n_bad:
        rep.inconclusive.append("stub validation: %d stored regression answers are not reproduced by the stubbed stack: %s" % (n_bad, bad[:3]))
    rep.note("stub validation: %d stored answers reproduced by the stubbed stack on every solver choice (%d paths), %d not" % (n_ok, npaths, n_bad))


def _signature_of(text):
    lines = [l.strip() for l in text.splitlines()]
    i = lines.index("signature")
    j = i + 1
    while not lines[j]:
        j += 1
    return [x.strip() for x in lines[j].split(",") if x.strip()]
