"""Ranking-object harnesses (C16, C17, C18, C20): PreOCF classes on symbolic bases / ranks.
Worlds are concrete bitstrings (position i of the string = atom a_i), tables symbolic."""
from __future__ import annotations

import itertools

from .rz3 import Z
from . import symex, ops, specs, tt, concretise
from .tt import CTX
from .specs import iv, bv, zb, lt


def world_str(w, n):
    return "".join("1" if (w >> i) & 1 else "0" for i in range(n))


def world_int(s):
    return sum((1 << i) for i, ch in enumerate(s) if ch == "1")


class _Base(symex.Harness):
    def reset(self):
        self.counts = {"ok": 0, "refused": 0, "exc": 0, "limit": 0}
        self.viol, self.samples, self.witness = [], [], {}

    def collect(self):
        return dict(counts=self.counts, viol=self.viol, samples=self.samples, witness=self.witness, entered=sorted(ops.ENTERED))

    def merge(self, s):
        for k, v in s["counts"].items():
            self.counts[k] = self.counts.get(k, 0) + v
        self.viol.extend(s["viol"])
        self.samples.extend(s["samples"])
        for k, v in s["witness"].items():
            self.witness[k] = self.witness.get(k, 0) + v
        ops.ENTERED.update(s["entered"])

    def mk_engine(self):
        tt.set_universe(self.N)
        return symex.Engine(max_decisions=6000)

    def record(self, eng, res, cond, msg):
        if len(self.viol) < 30:
            for m in eng.models(cond, self.vars, 2):
                self.viol.append(dict(res=[res[0], msg, _plain(res[1:])], vars={str(v): concretise.model_int(m, v) for v in self.vars}))

    def sample(self, eng, res):
        if len(self.samples) < 2:
            ms = eng.vc(Z.BoolVal(True))
            if ms is not None:
                self.samples.append(dict(config=self.label, result=_plain(res), tables={str(v): concretise.model_int(ms, v) for v in self.vars}))


class ZOcfHarness(_Base):
    """SystemZPreOCF: ranks (any order, lazy / forced / all at once), acceptance of the base,
    acceptance verdict of a query vs. the System Z definition, facts."""

    def __init__(self, N, M, K=0, extended=None, order=None, force=False, label=None, mode="ranks", which=1, fact_strings=None):
        ops.setup()
        self.N, self.M, self.K, self.extended = N, M, K, extended
        self.sb = ops.SymBase(N, M, 1)
        # facts: K symbolic formulas (FNode objects), or concrete strings in project syntax given
        # as (text, formula tree) pairs - the tree is the independent reading of the text
        self.fact_strings = fact_strings
        if fact_strings:
            K = self.K = len(fact_strings)
            self.facts = [concretise.tree_table(t) for _, t in fact_strings]
            self.vars = list(self.sb.vars)
        else:
            self.facts = [Z.BitVec("F%d" % i, CTX.W) for i in range(K)]
            self.vars = self.sb.vars + self.facts
        A, B, QA, QB = self.sb.tables()
        self.QA, self.QB = QA[0], QB[0]
        self.ext_eff = (extended if extended is not None else (K > 0))
        self.spec = specs.BaseSpec(A + [tt.t_not(f) for f in self.facts], B + [0] * K)
        self.order = order if order is not None else list(range(CTX.W))[:3]
        self.force = force
        self.mode, self.which = mode, which     # ranks | accept-base (conditional `which`) | query
        self.label = label or "SystemZPreOCF[%s] N=%d M=%d facts=%s extended=%s first-ranked=%s force=%s" % (
            mode if mode != "accept-base" else "accept-base c%d" % which, N, M, K if not fact_strings else [t for t, _ in fact_strings], extended, self.order, force)
        self.reset()

    def accepted(self):
        return self.spec.weakly_consistent if self.ext_eff else self.spec.consistent

    def rank_spec(self, w):
        sp = self.spec
        if self.ext_eff:
            return Z.If(zb(tt.t_bit(sp.FEAS, w)), sp.kz(w), sp.nlayers + 1)
        return sp.kz(w)

    def run(self, eng):
        R = ops.R
        import inference.preocf as po
        conds = {}
        for pos in range(self.M):
            c = R["Conditional"](self.sb.side("B", pos), self.sb.side("A", pos), "c%d" % (pos + 1))
            c.index = pos + 1
            conds[pos + 1] = c
        bb = R["BeliefBase"](list(CTX.atom_names), conds, "sym")
        facts = [tt.Leaf("F%d" % i, self.facts[i]) for i in range(self.K)] if not self.fact_strings else [t for t, _ in self.fact_strings]
        try:
            try:
                ocf = po.PreOCF.init_system_z(bb, facts=facts or None, extended=self.extended)
            except ValueError as e:
                return ("refused", str(e)[:200])
            if ocf._z_partition is False:
                return ("refused", "no partition")
            first = []
            for w in self.order:
                ws = world_str(w, self.N)
                first.append((w, ocf.rank_world(ws, force_calculation=self.force)))
            lazy_state = {world_int(k): v for k, v in ocf.ranks.items()}
            allr, base_acc, qacc = {}, {}, None
            if self.mode == "ranks":
                allr = {world_int(k): v for k, v in ocf.compute_all_ranks().items()}
            elif self.mode == "accept-base":
                base_acc = {self.which: ocf.conditional_acceptance(conds[self.which])}
            else:
                q = R["Conditional"](self.sb.side("QB", 0), self.sb.side("QA", 0), "q")
                qacc = ocf.conditional_acceptance(q)
            diag = ocf.load_meta("consistency_diagnostics")
            return ("ok", first, lazy_state, allr, base_acc, qacc, ocf.is_ocf(), diag is not None)
        except Exception as e:  # noqa: BLE001
            if isinstance(e, symex.Inconclusive):
                raise
            return ("exc", type(e).__name__, str(e)[:200])

    def on_path(self, eng, res):
        self.counts[res[0]] += 1
        acc = self.accepted()
        sp = self.spec
        if res[0] == "refused":
            if eng.vc(acc) is not None:
                self.record(eng, res, acc, "construction refused although the base (with facts) is consistent for the mode")
            elif self.K and "consistent" not in res[1]:
                self.record(eng, res, Z.BoolVal(True), "refusal does not carry the diagnostics")
        elif res[0] in ("exc", "limit"):
            if eng.vc(acc) is not None:
                self.record(eng, res, acc, "exception / no termination on an acceptable base: %s" % (res[1:],))
        else:
            _, first, lazy, allr, base_acc, qacc, is_ocf, has_diag = res
            if eng.vc(Z.Not(acc)) is not None:
                self.record(eng, res, Z.Not(acc), "ranking object constructed for a base that must be refused")
            bad = []
            for w, r in list(first) + list(allr.items()):
                if not isinstance(r, int):
                    self.record(eng, res, acc, "rank of world %s is %r" % (world_str(w, self.N), r))
                    continue
                bad.append(self.rank_spec(w) != iv(r))
            for w, r in first:
                if allr and allr.get(w) != r:
                    self.record(eng, res, acc, "rank of world %s changed between lazy and complete computation" % world_str(w, self.N))
            for w, r in lazy.items():
                if allr and r is not None and allr.get(w) != r:
                    self.record(eng, res, acc, "cached rank of world %s differs from compute_all_ranks" % world_str(w, self.N))
            if bad and eng.vc(Z.And(acc, Z.Or(*bad))) is not None:
                self.record(eng, res, Z.And(acc, Z.Or(*bad)), "a world's rank differs from the Z-rank of the definition")
            # every conditional of the base outside the infinity layer is accepted
            for k, a in base_acc.items():
                if a is not True:
                    c = Z.And(acc, sp.placed[k - 1])
                    if eng.vc(c) is not None:
                        self.record(eng, res, c, "base conditional %d (finite layer) is not accepted by the ranking" % k)
            # query verdict = System Z answer, when the antecedent has a feasible model
            U = sp.universe(self.ext_eff)
            feasA = (bv(self.QA) & bv(U)) != bv(0)
            exp = sp.spec_z(self.QA, self.QB, self.ext_eff)
            if qacc is not None:
                c = Z.And(acc, feasA, exp != Z.BoolVal(bool(qacc)))
                if eng.vc(c) is not None:
                    self.record(eng, res, c, "acceptance verdict %s differs from the System Z answer" % qacc)
            nl = "ranks" if is_ocf else "not-an-ocf"
            self.witness[nl] = self.witness.get(nl, 0) + 1
        self.sample(eng, res)

    def replay(self, cand):
        vars_ = cand["vars"]
        tt.set_universe(self.N)
        lv = ops.leafval_of(vars_)
        base = []
        for pos in range(self.M):
            c = concretise.formula_tree(self.sb.side("B", pos), lv)
            a = concretise.formula_tree(self.sb.side("A", pos), lv)
            base.append([pos + 1, c, a, "(%s|%s)" % (concretise.tree_to_text(c), concretise.tree_to_text(a))])
        facts = [concretise.table_to_tree(vars_["F%d" % i]) for i in range(self.K)] if not self.fact_strings else None
        qc = concretise.formula_tree(self.sb.side("QB", 0), lv)
        qa = concretise.formula_tree(self.sb.side("QA", 0), lv)
        job = {"atoms": list(CTX.atom_names), "steps": [{"op": "exec", "src": _ZSRC, "base": base, "facts": facts, "fact_strings": [t for t, _ in (self.fact_strings or [])], "extended": self.extended,
                                                          "order": [world_str(w, self.N) for w in self.order], "force": self.force, "q": [qc, qa],
                                                          "mode": self.mode, "which": self.which}]}
        out = concretise.run_real(job)
        rec = dict(harness=self.label, tables=vars_, job=job, real=out, symbolic_result=cand["res"])
        if "steps" not in out:
            return "error", rec
        st = out["steps"][0]
        if "exc" in st:
            res = ("exc",) + tuple(st["exc"])
        else:
            r = st["ok"]
            if r[0] == "refused":
                res = ("refused", r[1])
            else:
                res = ("ok", [(world_int(w), x) for w, x in r[1]], {world_int(w): x for w, x in r[2].items()},
                       {world_int(w): x for w, x in r[3].items()}, {int(k): v for k, v in r[4].items()}, r[5], r[6], r[7])
        rec["observed"] = _plain(res)
        # judge with the same assertions on a throw-away engine pinned to the concrete input
        eng = symex.Engine(assumptions=[v == vars_[str(v)] for v in self.vars])
        keep, self.viol = self.viol, []
        cnt = dict(self.counts)
        try:
            self.on_path(eng, res)
            bad = list(self.viol)
        finally:
            self.viol, self.counts = keep, cnt
        rec["expected"] = "ranks = Z-ranks of the definition, base accepted, verdict = System Z answer"
        rec["assertion"] = [b["res"][1] for b in bad]
        return ("confirmed" if bad else "not_reproduced"), rec


_ZSRC = '''
from inference.belief_base import BeliefBase
from inference.conditional import Conditional
from inference.preocf import PreOCF
cd = conds(st["base"])
bb = BeliefBase(job["atoms"], cd, "replay")
facts = [form(f) for f in st["facts"]] if st["facts"] is not None else list(st["fact_strings"])
try:
    ocf = PreOCF.init_system_z(bb, facts=facts or None, extended=st["extended"])
    refused = None
except ValueError as e:
    refused = str(e)[:200]
if refused is not None or ocf._z_partition is False:
    result = ["refused", refused or "no partition"]
else:
    first = [[w, ocf.rank_world(w, force_calculation=st["force"])] for w in st["order"]]
    lazy = dict(ocf.ranks)
    allr, base_acc, qacc = {}, {}, None
    if st["mode"] == "ranks":
        allr = ocf.compute_all_ranks()
    elif st["mode"] == "accept-base":
        base_acc = {st["which"]: ocf.conditional_acceptance(cd[st["which"]])}
    else:
        qacc = ocf.conditional_acceptance(Conditional(form(st["q"][0]), form(st["q"][1]), "q"))
    result = ["ok", first, lazy, allr, base_acc, qacc, ocf.is_ocf(), ocf.load_meta("consistency_diagnostics") is not None]
'''


def _plain(x):
    if isinstance(x, dict):
        return {str(k): _plain(v) for k, v in x.items()}
    if isinstance(x, (list, tuple)):
        return [_plain(y) for y in x]
    if isinstance(x, (bool, int, float, str, type(None))):
        return x
    return str(x)


# -- ranking-function laws for arbitrary rankings (C18) ---------------------------------------
class RankLawHarness(_Base):
    """CustomPreOCF over symbolic ranks (one integer per world, 0..RMAX) and symbolic formulas."""

    RMAX = 3

    def __init__(self, N, mode, drop=None, label=None, names=None):
        ops.setup()
        from .symint import SymInt
        self.N, self.M, self.mode = N, 0, mode
        # atom names deliberately NOT in alphabetical order (bit i of a world = signature[i])
        self.names = names or ["z0", "m1", "b2", "k3"][:N]
        tt.set_universe(N, self.names)
        W = CTX.W
        self.R = [Z.Int("R%d" % w) for w in range(W)]
        self.FA = Z.BitVec("FA", W)
        self.FB = Z.BitVec("FB", W)
        self.vars = self.R + [self.FA, self.FB]
        self.drop = drop or []
        self.label = label or "CustomPreOCF[%s] N=%d signature=%s%s" % (mode, N, self.names, (" drop=%s" % self.drop) if self.drop else "")
        self.reset()

    def mk_engine(self):
        tt.set_universe(self.N, self.names)
        pre = [Z.And(r >= 0, r <= self.RMAX) for r in self.R]
        return symex.Engine(assumptions=pre, max_decisions=6000)

    def run(self, eng):
        from .symint import SymInt
        import inference.preocf as po
        R = ops.R
        ranks = {world_str(w, self.N): SymInt(self.R[w], 0, self.RMAX) for w in range(CTX.W)}
        try:
            ocf = po.PreOCF.init_custom(ranks, signature=list(CTX.atom_names))
            fa, fb = tt.Leaf("FA", self.FA), tt.Leaf("FB", self.FB)
            if self.mode == "formula_rank":
                return ("ok", _conc(ocf.formula_rank(fa)))
            if self.mode == "acceptance":
                return ("ok", bool(ocf.conditional_acceptance(R["Conditional"](fb, fa, "q"))))
            if self.mode == "marginalize":
                m = ocf.marginalize([CTX.atom_names[i] for i in self.drop])
                mr = {k: _conc(v) for k, v in m.ranks.items()}
                return ("ok", list(m.signature), mr)
            if self.mode == "conditionalize":
                d = ocf.compute_conditionalization(fa)
                return ("ok", {k: _conc(v) for k, v in d.items()}, list(ocf.filter_worlds_by_conditionalization(fa)))
            if self.mode == "tpo":
                tpo = po.ranks2tpo(dict(ranks))
                layers = [sorted(l) for l in tpo]
                back_idx = po.tpo2ranks(tpo, lambda k: k)
                return ("ok", layers, dict(back_idx))
            raise ValueError(self.mode)
        except Exception as e:  # noqa: BLE001
            if isinstance(e, symex.Inconclusive):
                raise
            return ("exc", type(e).__name__, str(e)[:200])

    def minrank(self, tab):
        """(nonempty, min) over the worlds of table `tab` (z3 terms)."""
        r = Z.IntVal(self.RMAX + 1)
        for w in range(CTX.W):
            r = Z.If(Z.And(zb(tt.t_bit(tab, w)), self.R[w] < r), self.R[w], r)
        return bv(tab) != bv(0), r

    def good(self, res):
        if res[0] != "ok":
            return Z.BoolVal(False)
        FA, FB, Rk = self.FA, self.FB, self.R
        if self.mode == "formula_rank":
            ne, mn = self.minrank(FA)
            if res[1] is None:
                return Z.Not(ne)
            return Z.And(ne, mn == res[1])
        if self.mode == "acceptance":
            nev, mv = self.minrank(FA & FB)
            nef, mf = self.minrank(FA & ~FB)
            spec = Z.And(nev, Z.Or(Z.Not(nef), mv < mf))
            return spec == Z.BoolVal(res[1])
        if self.mode == "marginalize":
            keep = [i for i in range(self.N) if i not in self.drop]
            if res[1] != [CTX.atom_names[i] for i in keep]:
                return Z.BoolVal(False)
            cs = []
            exp_worlds = set()
            for nw in range(2 ** len(keep)):
                ns = "".join("1" if (nw >> j) & 1 else "0" for j in range(len(keep)))
                exp_worlds.add(ns)
                ext = [w for w in range(CTX.W) if all(((w >> i) & 1) == ((nw >> j) & 1) for j, i in enumerate(keep))]
                if ns not in res[2] or res[2][ns] is None:
                    return Z.BoolVal(False)
                mn = Rk[ext[0]]
                for w in ext[1:]:
                    mn = Z.If(Rk[w] < mn, Rk[w], mn)
                cs.append(mn == res[2][ns])
            if set(res[2]) != exp_worlds:
                return Z.BoolVal(False)
            return Z.And(*cs)
        if self.mode == "conditionalize":
            d, lst = res[1], res[2]
            if sorted(lst) != sorted(d) or len(set(lst)) != len(lst):
                return Z.BoolVal(False)
            cs = []
            for w in range(CTX.W):
                ws = world_str(w, self.N)
                inn = zb(tt.t_bit(FA, w))
                if ws in d:
                    if d[ws] is None:
                        return Z.BoolVal(False)
                    cs.append(Z.And(inn, Rk[w] == d[ws]))
                else:
                    cs.append(Z.Not(inn))
            return Z.And(*cs)
        if self.mode == "tpo":
            layers, back = res[1], res[2]
            flat = [w for l in layers for w in l]
            if sorted(flat) != sorted(world_str(w, self.N) for w in range(CTX.W)) or any(not l for l in layers):
                return Z.BoolVal(False)
            cs = []
            pos = {}
            for k, l in enumerate(layers):
                for ws in l:
                    pos[world_int(ws)] = k
            for a in range(CTX.W):
                for b in range(CTX.W):
                    cs.append((Rk[a] < Rk[b]) == Z.BoolVal(pos[a] < pos[b]))     # order preserved, ties = same layer
            for ws, k in back.items():
                if pos[world_int(ws)] != k:
                    return Z.BoolVal(False)
            return Z.And(*cs)
        raise ValueError(self.mode)

    def on_path(self, eng, res):
        self.counts[res[0]] = self.counts.get(res[0], 0) + 1
        bad = Z.Not(self.good(res))
        if eng.vc(bad) is not None:
            self.record(eng, res, bad, "result differs from the defining law (%s)" % self.mode)
        self.sample(eng, res)

    def replay(self, cand):
        vars_ = cand["vars"]
        tt.set_universe(self.N, self.names)
        ranks = {world_str(w, self.N): vars_["R%d" % w] for w in range(CTX.W)}
        job = {"atoms": list(CTX.atom_names), "steps": [{"op": "exec", "src": _RSRC, "ranks": ranks, "mode": self.mode,
                                                          "fa": concretise.table_to_tree(vars_["FA"], const="literal"),
                                                          "fb": concretise.table_to_tree(vars_["FB"], const="literal"),
                                                          "drop": [CTX.atom_names[i] for i in self.drop]}]}
        out = concretise.run_real(job)
        rec = dict(harness=self.label, tables=vars_, job=job, real=out, symbolic_result=cand["res"])
        if "steps" not in out:
            return "error", rec
        st = out["steps"][0]
        res = ("exc",) + tuple(st["exc"]) if "exc" in st else tuple(["ok"] + list(st["ok"]))
        rec["observed"] = _plain(res)
        s = Z.Solver()
        for v in self.vars:
            s.add(v == vars_[str(v)])
        s.add(Z.Not(self.good(res)))
        rec["expected"] = "the defining law of %s" % self.mode
        return ("confirmed" if s.check() == Z.sat else "not_reproduced"), rec


_RSRC = '''
from inference.preocf import PreOCF, ranks2tpo, tpo2ranks
from inference.conditional import Conditional
ocf = PreOCF.init_custom(dict(st["ranks"]), signature=job["atoms"])
fa, fb = form(st["fa"]), form(st["fb"])
m = st["mode"]
if m == "formula_rank":
    result = [ocf.formula_rank(fa)]
elif m == "acceptance":
    result = [bool(ocf.conditional_acceptance(Conditional(fb, fa, "q")))]
elif m == "marginalize":
    mo = ocf.marginalize(st["drop"])
    result = [list(mo.signature), dict(mo.ranks)]
elif m == "conditionalize":
    result = [dict(ocf.compute_conditionalization(fa)), list(ocf.filter_worlds_by_conditionalization(fa))]
else:
    tpo = ranks2tpo(dict(st["ranks"]))
    result = [[sorted(l) for l in tpo], dict(tpo2ranks(tpo, lambda k: k))]
'''


def _conc(x):
    from .symint import SymInt
    if isinstance(x, SymInt):
        return x.concretise()
    return x


# -- c-representation ranking object (C17) -----------------------------------------------------
class CRepHarness(_Base):
    """RandomMinCRepPreOCF on a symbolic base (c-inference preprocessing runs symbolically,
    the impact CSP of a path is concrete and is optimised by the genuine z3)."""

    CAP = 8         # a front of this size at these bounds means the enumeration does not stop

    def __init__(self, N, M, mode="impacts", level="L2", keys=None, label=None, shapes=None):
        ops.setup()
        self.N, self.M, self.mode, self.level = N, M, mode, level
        self.keys = keys or list(range(1, M + 1))
        self.sb = ops.SymBase(N, M, 1, shapes)
        self.vars = self.sb.vars
        A, B, QA, QB = self.sb.tables()
        self.QA, self.QB = QA[0], QB[0]
        self.spec = specs.BaseSpec(A, B)
        self.eta = [Z.Int("xeta%d" % i) for i in range(M)]
        self.label = label or "RandomMinCRepPreOCF[%s] N=%d M=%d %s keys=%s%s" % (mode, N, M, level, self.keys, (" shapes=" + ops.shape_name(shapes)) if shapes else "")
        self.reset()

    def run(self, eng):
        R = ops.R
        import inference.preocf as po
        from . import l2
        conds = {}
        for pos in range(self.M):
            c = R["Conditional"](self.sb.side("B", pos), self.sb.side("A", pos), "c%d" % self.keys[pos])
            c.index = self.keys[pos]
            conds[self.keys[pos]] = c
        bb = R["BeliefBase"](list(CTX.atom_names), conds, "sym")
        if self.level == "L2":
            l2.activate()
        try:
            if self.mode == "front":
                import inference.c_revision as cr
                try:
                    front = cr.c_inference_pareto_front(bb, max_solutions=self.CAP)
                except AssertionError as e:
                    return ("refused", str(e)[:100])
                return ("ok", [[int(x) for x in v] for v in front])
            try:
                ocf = po.PreOCF.init_random_min_c_rep(bb)
            except AssertionError as e:
                return ("refused", str(e)[:100])
            if self.mode == "front":
                pass
            imp = [int(x) for x in ocf.save_impacts()]
            if self.mode == "impacts":
                return ("ok", imp)
            if self.mode == "ranks":
                return ("ok", imp, {world_int(k): v for k, v in ocf.compute_all_ranks().items()})
            if self.mode == "accept-base":
                return ("ok", imp, {k: bool(ocf.conditional_acceptance(c)) for k, c in conds.items()})
            q = R["Conditional"](self.sb.side("QB", 0), self.sb.side("QA", 0), "q")
            return ("ok", imp, bool(ocf.conditional_acceptance(q)))
        except Exception as e:  # noqa: BLE001
            if isinstance(e, symex.Inconclusive):
                raise
            return ("exc", type(e).__name__, str(e)[:200])
        finally:
            l2.deactivate()

    def checks(self, res):
        """list of (z3 condition under which the path is a violation, message)"""
        sp = self.spec
        acc = sp.consistent
        if res[0] == "refused":
            return [(acc, "construction refused a strongly consistent base")]
        if res[0] in ("exc", "limit"):
            return [(acc, "construction failed on a strongly consistent base: %s" % (res[1:],))]
        if self.mode == "front":
            front = res[1]
            out = [(Z.Not(acc), "front enumerated for an inconsistent base")]
            if len(front) >= self.CAP or len(set(map(tuple, front))) != len(front):
                return out + [(acc, "Pareto-front enumeration does not terminate / repeats vectors: %s" % (front,))]
            if not front:
                return out + [(acc, "empty Pareto front for a consistent base")]
            for v in front:
                if len(v) != self.M or any(x < 0 for x in v):
                    return out + [(acc, "front member %s is not a vector of %d non-negative integers" % (v, self.M))]
                star = [Z.IntVal(x) for x in v]
                out.append((Z.And(acc, Z.Not(sp.crep(star))), "front member %s is not a c-representation" % (v,)))
                le = Z.And(*[e <= s_ for e, s_ in zip(self.eta, star)])
                ne = Z.Or(*[e < s_ for e, s_ in zip(self.eta, star)])
                out.append((Z.And(acc, sp.crep(self.eta), le, ne), "front member %s is not Pareto-minimal" % (v,)))
            undominated = Z.And(*[Z.Or(*[e < x for e, x in zip(self.eta, v)]) for v in front])
            out.append((Z.And(acc, sp.crep(self.eta), undominated), "a Pareto-minimal impact vector is missing from the front %s" % (front,)))
            return out
        imp = res[1]
        out = [(Z.Not(acc), "ranking object constructed for an inconsistent base")]
        if len(imp) != self.M or any(x < 0 for x in imp):
            return out + [(acc, "impacts %s are not %d non-negative integers" % (imp, self.M))]
        star = [Z.IntVal(x) for x in imp]
        if self.mode == "impacts":
            out.append((Z.And(acc, Z.Not(sp.crep(star))), "the ranking built from impacts %s does not accept every conditional of the base" % imp))
            le = Z.And(*[e <= s for e, s in zip(self.eta, star)])
            ne = Z.Or(*[e < s for e, s in zip(self.eta, star)])
            out.append((Z.And(acc, sp.crep(self.eta), le, ne), "impacts %s are not Pareto-minimal: a smaller c-representation exists" % imp))
        elif self.mode == "ranks":
            for w, r in res[2].items():
                if not isinstance(r, int):
                    out.append((acc, "rank of world %s is %r" % (world_str(w, self.N), r)))
                else:
                    out.append((Z.And(acc, sp.kappa_c(star, w) != r), "rank %d of world %s is not the sum of the impacts of its falsified conditionals" % (r, world_str(w, self.N))))
            if len(res[2]) != CTX.W:
                out.append((acc, "not every world is ranked"))
        elif self.mode == "accept-base":
            for k, a in res[2].items():
                if not a:
                    out.append((acc, "conditional %s of the base is not accepted" % k))
        else:
            out.append((Z.And(acc, sp.accepts_c(star, self.QA, self.QB) != Z.BoolVal(res[2])), "acceptance verdict %s is not the rank comparison under the object's own ranking" % res[2]))
        return out

    def on_path(self, eng, res):
        self.counts[res[0]] = self.counts.get(res[0], 0) + 1
        for cond, msg in self.checks(res):
            if eng.vc(cond) is not None:
                self.record(eng, res, cond, msg)
                break
        self.sample(eng, res)

    def replay(self, cand):
        vars_ = cand["vars"]
        tt.set_universe(self.N)
        lv = ops.leafval_of(vars_)
        base = []
        for pos in range(self.M):
            c = concretise.formula_tree(self.sb.side("B", pos), lv)
            a = concretise.formula_tree(self.sb.side("A", pos), lv)
            base.append([self.keys[pos], c, a, "(%s|%s)" % (concretise.tree_to_text(c), concretise.tree_to_text(a))])
        qc = concretise.formula_tree(self.sb.side("QB", 0), lv)
        qa = concretise.formula_tree(self.sb.side("QA", 0), lv)
        job = {"atoms": list(CTX.atom_names), "steps": [{"op": "exec", "src": _CSRC, "base": base, "mode": self.mode, "q": [qc, qa], "cap": self.CAP}]}
        out = concretise.run_real(job, timeout=45)
        rec = dict(harness=self.label, tables=vars_, job=job, real=out, symbolic_result=cand["res"])
        if "timeout" in out:
            rec["observed"] = "no result within 45 s"
            res = ("limit",)
        elif "steps" not in out:
            return "error", rec
        else:
            st = out["steps"][0]
            if "exc" in st:
                res = ("refused", st["exc"][1]) if st["exc"][0] == "AssertionError" else ("exc",) + tuple(st["exc"])
            else:
                r = st["ok"]
                if self.mode == "ranks":
                    r = [r[0], {world_int(k): v for k, v in r[1].items()}]
                elif self.mode == "accept-base":
                    r = [r[0], {int(k): v for k, v in r[1].items()}]
                res = tuple(["ok"] + list(r))
            rec["observed"] = _plain(res)
        s = Z.Solver()
        for v in self.vars:
            s.add(v == vars_[str(v)])
        bad = None
        for cond, msg in self.checks(res):
            s.push()
            s.add(cond)
            if s.check() == Z.sat:
                bad = msg
            s.pop()
            if bad:
                break
        rec["expected"] = "non-negative Pareto-minimal impacts of a c-representation; ranks = sums; base accepted"
        rec["assertion"] = bad
        return ("confirmed" if bad else "not_reproduced"), rec


_CSRC = '''
from inference.belief_base import BeliefBase
from inference.conditional import Conditional
from inference.preocf import PreOCF
cd = conds(st["base"])
m = st["mode"]
if m == "front":
    from inference.c_revision import c_inference_pareto_front
    result = [[[int(x) for x in v] for v in c_inference_pareto_front(BeliefBase(job["atoms"], cd, "replay"), max_solutions=st["cap"])]]
    imp = None
else:
    ocf = PreOCF.init_random_min_c_rep(BeliefBase(job["atoms"], cd, "replay"))
    imp = [int(x) for x in ocf.save_impacts()]
if m == "front":
    pass
elif m == "impacts":
    result = [imp]
elif m == "ranks":
    result = [imp, dict(ocf.compute_all_ranks())]
elif m == "accept-base":
    result = [imp, {k: bool(ocf.conditional_acceptance(c)) for k, c in cd.items()}]
else:
    result = [imp, bool(ocf.conditional_acceptance(Conditional(form(st["q"][0]), form(st["q"][1]), "q")))]
'''
