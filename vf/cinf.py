"""c-inference harness (C05): skeptical inference over all c-representations.

Oracle per path, both directions quantifier-free:
  answer True  : PC /\\ crep(eta) /\\ not accepted_q(eta) must be unsat (eta fresh integers);
  answer False : for every base/query on the path there must be a c-representation that
                 rejects the query.  Witness impact vectors are found by a CEGIS loop
                 (candidate vector from the code's own CSP model or from z3 for one
                 concrete base of the path; then `PC /\\ no candidate works` must be unsat).
"""
from __future__ import annotations

from .rz3 import Z
from . import symex, ops, specs, concretise


class CHarness(ops.OpHarness):
    CEGIS_MAX = 12

    def __init__(self, N, M, pm="rc2", **kw):
        super().__init__("c-inference", N, M, pm=pm, weakly=False, **kw)
        self.eta = [Z.Int("xeta%d" % i) for i in range(M)]

    def build_expected(self):
        return None

    def run(self, eng):
        res = super().run(eng)
        if res[0] == "ans" and res[1] is False:
            m = eng.notes.get("last_arith_model")
            hint = None
            if m is not None:
                vals = {}
                for d in m.decls():
                    nm = d.name()
                    if nm.startswith("eta_"):
                        try:
                            vals[int(nm[4:])] = m[d].as_long()
                        except Exception:
                            pass
                if len(vals) == self.M:
                    hint = [vals[k] for k in sorted(vals)]
            return ("ans", False, hint)
        return res

    def neg_vc(self, res):
        raise NotImplementedError

    def on_path(self, eng, res):
        kind = res[0]
        if kind == "ans":
            self.counts["ans_true" if res[1] is True else "ans_false"] += 1
        else:
            self.counts[kind] += 1
        self.vc += 1
        sp = self.spec
        acc = sp.consistent
        preds = [Z.Not(p) for _, _, p in self.known_preds()]
        bad = None
        if kind in ("refused", "exc", "limit") or res[1] not in (True, False):
            bad = eng.vc(Z.And(acc, *preds))
        elif res[1] is True:
            bad = eng.vc(Z.And(acc, sp.crep(self.eta), Z.Not(sp.query_accepted_c(self.eta, self.QA, self.QB)), *preds))
        else:
            cands = []
            if res[2] is not None:
                cands.append([Z.IntVal(v) for v in res[2]])
            cands.append([Z.IntVal(0)] * self.M)
            cands.append([Z.IntVal(1)] * self.M)

            def works(c):
                return Z.And(sp.crep(c), Z.Not(sp.query_accepted_c(c, self.QA, self.QB)))
            for it in range(self.CEGIS_MAX):
                m = eng.vc(Z.And(acc, *[Z.Not(works(c)) for c in cands], *preds))
                if m is None:
                    break
                # concrete base/query without a working candidate: ask for a witness
                s = Z.Solver()
                s.set("timeout", 120000)
                for v in self.sb.vars:
                    s.add(v == m.eval(v, model_completion=True))
                s.add(works(self.eta))
                r = s.check()
                if r == Z.unknown:
                    raise symex.Inconclusive("z3 unknown while searching a c-representation witness")
                if r == Z.unsat:
                    bad = m          # answered False although every c-representation accepts
                    break
                mm = s.model()
                cands.append([mm.eval(e, model_completion=True) for e in self.eta])
                self.witness["cegis_rounds"] = self.witness.get("cegis_rounds", 0) + 1
            else:
                raise symex.Inconclusive("CEGIS for c-representation witnesses did not converge")
        if kind == "ans" and res[1] is False and bad is None and self.witness.get("twin_negated_spec_detected", 0) < 2:
            # vacuity twin: had the code answered True on this path, the True-direction VC must refute it
            if eng.vc(Z.And(acc, sp.crep(self.eta), Z.Not(sp.query_accepted_c(self.eta, self.QA, self.QB)))) is not None:
                self.witness["twin_negated_spec_detected"] = self.witness.get("twin_negated_spec_detected", 0) + 1
        if bad is not None:
            if len(self.viol) < 40:
                self.viol.append(dict(res=list(res[:2]), vars={str(v): concretise.model_int(bad, v) for v in self.sb.vars}))
        elif self.known_preds():
            # attribute to a known class if the unrestricted VC fails
            pass
        if len(self.samples) < 2:
            ms = eng.vc(Z.BoolVal(True))
            if ms is not None:
                self.samples.append(dict(config=self.label, decisions=len(eng.frames), result=list(res[:2]),
                                         tables={str(v): concretise.model_int(ms, v) for v in self.sb.vars}))

    def expected_concrete(self, vars_):
        s = Z.Solver()
        for v in self.sb.vars:
            s.add(v == vars_[str(v)])
        s.check()
        m = s.model()
        acc = Z.is_true(m.eval(self.spec.consistent, model_completion=True))
        if not acc:
            return acc, None
        s.add(self.spec.crep(self.eta), Z.Not(self.spec.query_accepted_c(self.eta, self.QA, self.QB)))
        r = s.check()
        if r == Z.unknown:
            raise symex.Inconclusive("unknown")
        return acc, (r == Z.unsat)
