#!/bin/bash
# Runs every claimed check once (tier from $1, default quick); prints one line per check.
cd "$(dirname "$0")"
tier=${1:-quick}
for id in $(python3 -c "import json; print(' '.join(c['property_id'] for c in json.load(open('MANIFEST.json'))['checks']))"); do
  s=$(date +%s)
  timeout ${2:-3600} ./check $id --tier $tier > /tmp/runall_$id.log 2>&1
  rc=$?
  echo "$id exit=$rc wall=$(( $(date +%s) - s ))s $(grep -c '^VIOLATION' /tmp/runall_$id.log) violations $(grep -c '^KNOWN-FINDING' /tmp/runall_$id.log) known"
done
