#!/usr/bin/env python3
"""Regenerates MANIFEST.json from the table below (keeps it valid at all times)."""
import json, os
HERE = os.path.dirname(os.path.abspath(__file__))
TRUST = ("z3 5.1 (path feasibility, verification conditions); CPython; the executor and the solver stand-ins of vf/ "
         "(validated on every run against the repository's stored regression answers and by replaying every counterexample on the genuine stack); "
         "the specification library vf/specs.py (validated by the sanity lemmas run first)")
SYMEX = "symbolic execution (own decision-replay executor on z3) of the real code with truth-table solver stand-ins; per-path unsat VC against an independent z3 specification; counterexample replay on the real stack"
CHECKS = {
 "C01": dict(cat="model_checking",
   text="Bounded-exhaustive symbolic execution of the real PEntailment/consistency code: every feasible path for every base of <=3 (thorough <=5) conditionals and every query whose formulas distinguish <=8 (thorough 16) classes of worlds is compared by z3 with an independent unrolled-tolerance specification (itself proved equivalent to 'accepted by all ranking models' at N=2). A bounded claim, not a proof.",
   ref="3 C01", tech=SYMEX),
 "C02": dict(cat="model_checking",
   text="Same machinery on SystemZ._preprocess_belief_base/_inference/_rec_inference: all paths for bases with <=4 (thorough 5) conditionals over <=16 world classes; oracle = rank comparison under the Z-ranking built from the specification's own tolerance layers. Bounded.",
   ref="3 C02", tech=SYMEX),
 "C03": dict(cat="model_checking",
   text="System W, both back-ends: L1 runs the real optimizer.py / Tseitin code (genuine z3 tactic on formula skeletons) on an RC2 stand-in that returns ANY optimal model, and the real system_w_z3 on a MaxSAT stand-in; L2 replaces minimal_correction_subsets by its specification to reach N=3,M=3..4. Oracle: forall v |= A!B exists w |= AB with w <_w v, expanded over all world pairs. Shapes with literal Top/Bottom and compound positions included. Bounded.",
   ref="3 C03", tech=SYMEX),
 "C04": dict(cat="model_checking",
   text="Lexicographic inference, both back-ends, same stub depths and bounds as C03; oracle: exists w |= AB below every v |= A!B in the lexicographic order of per-layer falsification counts. This check found the 'every pair of minimal sets' defect (fixed in /repo, see known_findings.json). Bounded.",
   ref="3 C04", tech=SYMEX),
 "C05": dict(cat="model_checking",
   text="c-inference: the real compile_constraint/translate/encoding/compile_and_encode_query run symbolically (paths fix all minimal-correction-set lists, the CSP is then concrete and solved by the genuine z3). Answer True is checked against all non-negative integer impact vectors (unbounded), answer False by a CEGIS loop exhibiting a rejecting c-representation for every base on the path. Bounds N<=3, M<=2 (thorough 3).",
   ref="3 C05", tech=SYMEX + "; CEGIS for existential witnesses"),
 "C06": dict(cat="model_checking",
   text="consistency() and consistency_indices() (both modes, keys 1..M / 0-based / sparse) against the unrolled definition incl. uniqueness, layer order and the infinity layer; consistency_diagnostics with <=2 symbolic facts against the definitions applied to base and base+(Bottom|!fact); refusal of empty / inconsistent bases by all 7 operator classes in both modes. Bounds N<=3, M<=4 (thorough N=4, M<=6).",
   ref="3 C06", tech=SYMEX),
 "C07": dict(cat="model_checking",
   text="weakly=True branches of p-entailment, System Z, System W, lex_inf (all back-ends) on every weakly consistent symbolic base within the bounds of C01-C04: result must be a Boolean equal to the extended specification (feasible worlds, finite layers); any exception on such a base is a violation. Found and fixed: IndexError without finite layer, z3 back-ends ignoring the infinity layer.",
   ref="3 C07", tech=SYMEX),
 "C08": dict(cat="model_checking",
   text="Product programs: for each adjacent pair of the chains p<=Z<=W<=lex and p<=c<=W (all back-end combinations, both modes) both operators are executed symbolically on ONE symbolic base and query inside the same path and the implication between their concrete answers is asserted; every model of a failing path is a counterexample. Bounds N<=3, M<=3 (thorough (3,4),(4,3)). The clause 'bases of any size / shipped corpora' is outside the claim (stated in the evidence).",
   ref="3 C08, 2.6", tech="symbolic execution of a product program (two real operators on one symbolic input) with the real code and solver stand-ins; assertion over concrete per-path answers; replay on the real stack"),
 "C09": dict(cat="model_checking",
   text="Each postulate is a product program over 1-3 related queries built from arbitrary formula tables X0,X1,X2 against one symbolic base on one operator instance: direct inference, reflexivity, supraclassicality, right weakening, And, Or, cautious monotony, Cut, consistency preservation (strict), rational monotony (Z, lex); 7 operator/back-end classes x both modes; vacuity twin: RM for p-entailment must be refuted. Bounds N=2,M=2 (thorough N=3,M=2 / N=2,M=3).",
   ref="3 C09", tech="symbolic execution of product programs (several related queries on one symbolic base) over the real code; assertion over concrete per-path answers"),
 "C11": dict(cat="model_checking",
   text="rc2 (real optimizer.py on a stand-in returning ANY optimal model, hence every correct SAT engine) and z3 back-ends of System W and lex_inf run on the same symbolic base/query in one path and must agree, both modes; c-inference is run twice with independent optimal-model choices and must agree; all engine-name suffixes are pushed through the real suffix handling. Bounds N=2,M<=2(3) at L1, N=3,M=3(4) at L2.",
   ref="3 C11", tech="symbolic execution of a product program (two back-ends, one symbolic input); solver stand-in with unconstrained optimal-model choice covers all SAT engines"),
 "C12": dict(cat="model_checking",
   text="Product programs: the same symbolic base is presented twice to the same operator - standard keys 1..M vs 0-based / sparse / descending / shuffled keys, permuted list orders, and table-preserving re-spellings of one position ((A,Top), (B;Bottom), !!A, (B,B)) - and both presentations must give the same answer (and no exception); 7 operator/back-end classes x both modes, N=2,M=2 (thorough N=3,M=3, all M! orders). Found and fixed three key-0 / positional-key defects.",
   ref="3 C12", tech="symbolic execution of a product program (two presentations of one symbolic base) over the real code; assertion over concrete per-path answers"),
 "C13": dict(cat="model_checking",
   text="The real InferenceManager.inference (DataFrame plumbing included) is driven symbolically through histories of <=3 calls on ONE manager over symbolic queries: alone / other / repeated, batch then permuted batch with arbitrary integer keys (0, negative, large), duplicate text under two keys, look-alike deep formulas (str() truncation), sequential and with parallel evaluation on a multiprocessing stand-in (fork-isolated workers, any subset declared hung; protocol assertion 'no worker left behind'). Every row must carry its own key/text and the definition's answer for ITS query. One listed known finding (duplicate text -> last key); found and fixed: hung worker recorded under its position, c-inference second call.",
   ref="3 C13", tech="symbolic execution of call histories on the real manager code with solver and multiprocessing stand-ins; per-row unsat VC against the specification; fault-injection replay with real processes"),
 "C15": dict(cat="translation_validation",
   text="Part 1 (genuine stack): for every conditional over the closed set of formulas of depth<=2 over {a,b} (thorough {a,b,c}) and Top/Bottom the real belief_base_to_cnf/query_to_cnf output is validated by two solver queries per CNF (no non-model admitted; every model extends over all non-atom variables) - complete enumeration of the formula set, solver-quantified assignments. Part 2: the real minimal_correction_subsets/get_violated_conditional/exclude_violated/remove_supersets on the RC2 stand-in against 'exactly the minimal falsification sets, each once, none iff hard unsat' for every optimal-model choice, k<=3 soft groups, incl. multi-clause groups and ignore lists.",
   ref="3 C15", tech="translation validation of the real tactic output with z3 (incl. exists/forall over auxiliaries) + symbolic execution of the real enumeration loop on a nondeterministic MaxSAT stand-in"),
 "C14": dict(cat="model_checking",
   text="The clock and the solver's give-up are the symbolic part: perf_counter/perf_counter_ns are replaced by a schedule-driven clock (time stands still except at <=1, thorough 2, jump events whose position among ALL clock reads and size are free decisions) and any z3.Optimize.check() under a timeout may answer 'unknown' (model() then raises or returns a non-optimal model). The real Deadline, budget arithmetic of InferenceManager.inference, wrappers and operators run on a symbolic base with a budgeted batch followed by a budget-free call; every row must be flagged-with-False or equal the definition's answer, no exception may escape; also under parallel evaluation with hanging workers. Found and fixed: model read after 'unknown'.",
   ref="3 C14", tech="symbolic execution over fault schedules (clock jumps, solver give-up, hung workers as free decisions) of the real budget/timeout code; per-row unsat VC; fault-injection replay on the real stack"),
 "C16": dict(cat="model_checking",
   text="SystemZPreOCF on symbolic bases with concrete worlds: construction (both branches, 0-2 symbolic facts, extended unset/True/False), rank_world for up to 3 worlds in a chosen order (lazy or forced) followed by compute_all_ranks - every rank must equal the Z-rank of the definition (top rank exactly for infeasible worlds in extended mode, facts = base + (Bottom|!fact)); acceptance of every finite-layer base conditional; the acceptance verdict of an arbitrary query after any lazy prefix must equal the System Z definition; unsatisfiable combinations must be refused with diagnostics. Bounds N=2, M=2 (thorough (2,3),(3,2)).",
   ref="3 C16", tech=SYMEX),
 "C18": dict(cat="model_checking",
   text="CustomPreOCF with one symbolic integer rank per world (0..3) and arbitrary formula tables: formula_rank = min over models / undefined, conditional_acceptance (incl. unsatisfiable antecedent), marginalize for every proper subset of atoms (min over extensions, signature order), compute_conditionalization / filter (exact world set and ranks), ranks2tpo/tpo2ranks (layers preserve the order). N=2 fully, N=3 for formula_rank and marginalize (thorough: all).",
   ref="3 C18", tech="symbolic execution with symbolic integers (z3 Int) for ranks and truth tables for formulas over the real PreOCF code; per-path unsat VC against the defining law"),
 "C17": dict(cat="model_checking",
   text="RandomMinCRepPreOCF and c_inference_pareto_front on symbolic bases: the c-inference preprocessing runs symbolically (paths fix the minimal-correction-set lists), the concrete impact CSP of a path is optimised by the genuine z3, and z3 then decides against ALL integer vectors: impacts non-negative, the induced ranking accepts every base conditional (for every base on the path), Pareto-minimal (no smaller c-representation), rank(w) = sum of impacts of falsified conditionals, acceptance verdict = rank comparison; front: every member a Pareto-minimal c-representation, no duplicates, no undominated c-representation missing, enumeration stops. Bounds N<=3, M<=3. Found and fixed: front enumeration never terminating / AttributeError.",
   ref="3 C17", tech=SYMEX + "; quantifier-free minimality/completeness queries over unbounded integers"),
 "C19": dict(cat="model_checking",
   text="c-revision on every prior ranking with ranks 0..2 over 2 atoms (symbolic, forked per value where it enters the CSP) and literal / opaque (arbitrary-table) revision conditionals: (a) compile_alt = compile_alt_fast = CRevisionModel.to_compilation(), also after add/remove scripts vs. a fresh compilation; (b) c_revision results: non-negative integers, fixed maps respected, the revised ranking accepts every revision conditional for every input of the path, None only if no admissible parameters exist, gamma- Pareto-minimal when gamma+ = 0, never raises - decided by z3 against all integer parameter vectors; direct and via the incremental model. Found and fixed: None for unfalsifiable conditionals; AttributeError in the solver wrapper.",
   ref="3 C19", tech=SYMEX + "; the path's concrete CSP is solved by the genuine z3, existence/minimality decided by quantifier-free queries"),
 "C20": dict(cat="model_checking",
   text="PARTIAL: wrapper logic of save_ocf/load_ocf/export_impacts/import_impacts/init_with_impacts*/save_metadata/load_metadata for System Z, custom and c-representation objects with a lazily computed rank prefix, under faithful-serialiser stand-ins (pickle protocol via __getstate__/__setstate__ on deep copies, identity JSON, a write may fail at open or mid-dump as a free decision): in-memory object unchanged and usable after a (failed) save, solver attributes restored / re-added, completed ranks, verdicts and impacts of the loaded object equal the original's, metadata round trip and suffix dispatch. NOT claimed: fidelity of the real pickle/JSON, reload in a fresh interpreter.",
   ref="3 C20", tech="symbolic execution with serialiser stand-ins and injected write faults as free decisions; assertions over concrete per-path results",
   note="as the other checks, plus: pickle/json/pathlib inside inference/preocf.py are replaced by faithful-serialiser stand-ins - the claim is about the repository's wrapper logic, not about the real encoders"),
}
NA = {
 "C10": "ANTLR-generated parser interpreted by the antlr4 runtime: symbolic inputs are concretised at the first DFA lookup, CrossHair gave an unsound 'Confirmed' (DFA-cache nondeterminism) and no verdict in 8 min for |s|<=3; an SMT model of ALL(*) would be a model of the runtime, not the real code (DESIGN.md 3 C10)",
}
ALL = ["C%02d" % i for i in range(1, 21)]
def main():
    checks = []
    for pid in ALL:
        if pid in CHECKS:
            c = CHECKS[pid]
            checks.append(dict(property_id=pid, quick_cmd="./check %s --tier quick" % pid,
                thorough_cmd="./check %s --tier thorough" % pid, evidence_file="evidence/%s.json" % pid,
                replay_cmd_template="./check %s --replay {path}" % pid, engine="vf",
                level_claimed=dict(category=c["cat"], text=c["text"], design_ref=c["ref"]),
                level_note=c.get("note", TRUST), technique=c["tech"]))
    na = [dict(property_id=p, reason=NA.get(p, "check not built yet (work in progress; see DESIGN.md 3 for the plan)")) for p in ALL if p not in CHECKS]
    m = dict(version=1, setup_cmd="mkdir -p evidence replays && /venv/bin/python -c 'import z3, pysat, pandas'",
        hooks=dict(guard="INFOCF_VERIF", enable="no source hooks: checks import /repo's modules as they are, with solver stand-ins injected via sys.modules by vf/fakes.py",
                   baseline_off_cmd="cd /repo && /venv/bin/python -m pytest -ra -q -p no:cacheprovider --timeout=900 --continue-on-collection-errors", source_commits=[], add_only=True),
        engines=[dict(name="vf", path="vf/", serves_properties=sorted(CHECKS), kind_free_text="decision-replay symbolic executor on z3 over the real Python code, external solvers replaced by truth-table stand-ins; specs as z3 terms; replay on the genuine stack")],
        checks=checks, not_applicable=na,
        notes="Exit codes: 0 held / only known findings; 1 VIOLATION (reproduced on the real stack); 3 inconclusive or harness error. See DESIGN.md.")
    json.dump(m, open(os.path.join(HERE, "MANIFEST.json"), "w"), indent=1)
if __name__ == "__main__":
    main()
