#!/usr/bin/env python3
"""Regenerates MANIFEST.json from the table below (keeps it valid at all times)."""
import json, os
HERE = os.path.dirname(os.path.abspath(__file__))
TRUST = ("z3 5.1 (path feasibility, verification conditions); CPython; the executor and the solver stand-ins of vf/ "
         "(validated on every run against the repository's stored regression answers and by replaying every counterexample on the genuine stack); "
         "the specification library vf/specs.py (validated by the sanity lemmas run first)")
CHECKS = {
 "C01": dict(cat="model_checking",
   text="Bounded-exhaustive symbolic execution of the real PEntailment/consistency code: every feasible path for every base of <=3 (thorough <=5) conditionals and every query whose formulas distinguish <=8 (thorough 16) classes of worlds is compared by z3 with an independent unrolled-tolerance specification (itself proved equivalent to 'accepted by all ranking models' at N=2). A bounded claim, not a proof.",
   ref="3 C01", tech="symbolic execution (own decision-replay executor on z3) of the real code with truth-table solver stand-ins; per-path unsat VC against a spec; counterexample replay on the real stack"),
}
NA = {
 "C10": "ANTLR-generated parser interpreted by the antlr4 runtime: symbolic inputs are concretised at the first DFA lookup, CrossHair gave an unsound 'Confirmed' (DFA-cache nondeterminism) and no verdict in 8 min for |s|<=3; an SMT model of ALL(*) would be a model of the runtime, not the real code (DESIGN.md 3 C10)",
}
ALL = ["C%02d" % i for i in range(1, 21)]
def main():
    checks = []
    for pid in ALL:
        if pid in CHECKS:
            c = CHECKS[pid]
            checks.append(dict(property_id=pid, quick_cmd="./check %s --tier quick" % pid,
                thorough_cmd="./check %s --tier thorough" % pid, evidence_file="evidence/%s.json" % pid,
                replay_cmd_template="./check %s --replay {path}" % pid, engine="vf",
                level_claimed=dict(category=c["cat"], text=c["text"], design_ref=c["ref"]),
                level_note=c.get("note", TRUST), technique=c["tech"]))
    na = [dict(property_id=p, reason=NA.get(p, "check not built yet (work in progress; see DESIGN.md 3 for the plan)")) for p in ALL if p not in CHECKS]
    m = dict(version=1, setup_cmd="mkdir -p evidence replays && /venv/bin/python -c 'import z3, pysat, pandas'",
        hooks=dict(guard="INFOCF_VERIF", enable="no source hooks: checks import /repo's modules as they are, with solver stand-ins injected via sys.modules by vf/fakes.py",
                   baseline_off_cmd="cd /repo && /venv/bin/python -m pytest -ra -q -p no:cacheprovider --timeout=900 --continue-on-collection-errors", source_commits=[], add_only=True),
        engines=[dict(name="vf", path="vf/", serves_properties=sorted(CHECKS), kind_free_text="decision-replay symbolic executor on z3 over the real Python code, external solvers replaced by truth-table stand-ins; specs as z3 terms; replay on the genuine stack")],
        checks=checks, not_applicable=na,
        notes="Exit codes: 0 held / only known findings; 1 VIOLATION (reproduced on the real stack); 3 inconclusive or harness error. See DESIGN.md.")
    json.dump(m, open(os.path.join(HERE, "MANIFEST.json"), "w"), indent=1)
if __name__ == "__main__":
    main()
